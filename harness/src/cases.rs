//! S->I case runners: TLC enumerates cases together with the result the specification assigns
//! to each; the runner executes every case on the real code and reports every disagreement.

use ironcalc_base::Model;
use serde_json::{json, Value};
use std::collections::BTreeSet;
use std::io::{BufRead, Write};

pub struct Report {
    pub out: std::io::BufWriter<std::fs::File>,
    pub n_cases: usize,
    pub n_checks: usize,
    pub n_mism: usize,
    pub nontrivial: BTreeSet<String>,
    pub samples: Vec<Value>,
    pub no_verdict: usize,
}

impl Report {
    pub fn new(out_dir: &str) -> Result<Report, String> {
        std::fs::create_dir_all(out_dir).map_err(|e| e.to_string())?;
        Ok(Report {
            out: std::io::BufWriter::new(std::fs::File::create(format!("{}/mismatches.ndjson", out_dir)).map_err(|e| e.to_string())?),
            n_cases: 0,
            n_checks: 0,
            n_mism: 0,
            nontrivial: Default::default(),
            samples: vec![],
            no_verdict: 0,
        })
    }
    pub fn mismatch(&mut self, prop: &str, why: &str, subject: &str, case: Value, detail: String) {
        self.n_mism += 1;
        if self.n_mism <= 20000 {
            writeln!(self.out, "{}", json!({"property": prop, "why": why, "subject": subject, "case": case, "detail": detail})).ok();
        }
    }
    pub fn finish(mut self) -> Value {
        self.out.flush().ok();
        json!({"cases": self.n_cases, "checks": self.n_checks, "mismatches": self.n_mism, "distinct_nontrivial": self.nontrivial.len(),
               "samples": self.samples, "no_verdict": self.no_verdict})
    }
}

// ------------------------------------------------------------------------------------------
// C21 calendar: lines "serial y m d wd" (wd: 0 = Sunday)

fn in_quick_window(s: i64) -> bool {
    s <= 800 || s > 2_958_465 - 800 || (36_000..=36_900).contains(&s) || s % 97 == 0
}

pub fn calendar(path: &str, out_dir: &str, thorough: bool) -> Result<Value, String> {
    use chrono::Datelike;
    use ironcalc_base::formatter::dates::{date_to_serial_number, from_excel_date};
    use ironcalc_base::formatter::format::format_number;
    let mut rep = Report::new(out_dir)?;
    let locale = ironcalc_base::locale::get_locale("en").map_err(|_| "no locale".to_string())?;
    let f = std::fs::File::open(path).map_err(|e| e.to_string())?;
    let mut batch: Vec<(i64, i32, u32, u32, u32)> = vec![];
    let mut century_feb: BTreeSet<i64> = BTreeSet::new();
    let mut all: Vec<(i64, i32, u32, u32, u32)> = vec![];
    for line in std::io::BufReader::new(f).lines() {
        let line = line.map_err(|e| e.to_string())?;
        let p: Vec<i64> = line.split_whitespace().filter_map(|x| x.parse().ok()).collect();
        if p.len() != 5 {
            continue;
        }
        all.push((p[0], p[1] as i32, p[2] as u32, p[3] as u32, p[4] as u32));
    }
    for &(s, y, m, d, wd) in &all {
        rep.n_cases += 1;
        let case = json!({"serial": s, "y": y, "m": m, "d": d, "wd": wd});
        if rep.samples.len() < 3 && (s == 1 || s == 60 || s == 2_958_465) {
            rep.samples.push(case.clone());
        }
        // the two codec functions: every serial, both tiers
        rep.n_checks += 1;
        match from_excel_date(s) {
            Ok(date) => {
                if (date.year(), date.month(), date.day()) != (y, m, d) {
                    rep.mismatch("C21", "serial-to-date", "from_excel_date", case.clone(), format!("got {}-{}-{}", date.year(), date.month(), date.day()));
                }
                let w = date.weekday().num_days_from_sunday();
                if w != wd {
                    rep.mismatch("C21", "weekday", "from_excel_date", case.clone(), format!("got weekday {w}"));
                }
            }
            Err(e) => rep.mismatch("C21", "serial-to-date", "from_excel_date", case.clone(), format!("error {e}")),
        }
        rep.n_checks += 1;
        match date_to_serial_number(d, m, y) {
            Ok(x) => {
                if x as i64 != s {
                    rep.mismatch("C21", "date-to-serial", "date_to_serial_number", case.clone(), format!("got {x}"));
                }
            }
            Err(e) => rep.mismatch("C21", "date-to-serial", "date_to_serial_number", case.clone(), format!("error {e}")),
        }
        if m == 2 && d == 28 && y % 100 == 0 {
            century_feb.insert(s);
            century_feb.insert(s + 1);
        }
        if d == 1 || d >= 28 {
            rep.nontrivial.insert(format!("{y}-{m}"));
        }
    }
    // date format, typed ISO dates and the date functions: windows in quick, everything in thorough
    let selected: Vec<(i64, i32, u32, u32, u32)> =
        all.iter().cloned().filter(|t| thorough || in_quick_window(t.0) || century_feb.contains(&t.0)).collect();
    for &(s, y, m, d, _wd) in &selected {
        let case = json!({"serial": s, "y": y, "m": m, "d": d});
        rep.n_checks += 1;
        let want = format!("{:04}-{:02}-{:02}", y, m, d);
        let got = format_number(s as f64, "yyyy-mm-dd", locale);
        if got.text != want || got.error.is_some() {
            rep.mismatch("C21", "date-format", "format_number", case.clone(), format!("got {:?} want {}", got.text, want));
        }
    }
    let chunk = 4000usize;
    for part in selected.chunks(chunk) {
        batch.clear();
        batch.extend_from_slice(part);
        let mut model = Model::new_empty("cal", "en", "UTC", "en")?;
        for (i, &(s, y, m, d, _)) in batch.iter().enumerate() {
            let r = (i + 1) as i32;
            model.set_user_input(0, r, 1, format!("{s}"))?;
            model.set_user_input(0, r, 2, format!("=YEAR(A{r})"))?;
            model.set_user_input(0, r, 3, format!("=MONTH(A{r})"))?;
            model.set_user_input(0, r, 4, format!("=DAY(A{r})"))?;
            model.set_user_input(0, r, 5, format!("=WEEKDAY(A{r})"))?;
            model.set_user_input(0, r, 6, format!("=WEEKDAY(A{r},2)"))?;
            model.set_user_input(0, r, 7, format!("=DATE({y},{m},{d})"))?;
            model.set_user_input(0, r, 8, format!("{:04}-{:02}-{:02}", y, m, d))?;
        }
        model.evaluate();
        for (i, &(s, y, m, d, wd)) in batch.iter().enumerate() {
            let r = (i + 1) as i32;
            let case = json!({"serial": s, "y": y, "m": m, "d": d, "wd": wd});
            let num = |c: i32| -> Option<f64> {
                match model.get_cell_value_by_index(0, r, c) {
                    Ok(ironcalc_base::cell::CellValue::Number(n)) => Some(n),
                    _ => None,
                }
            };
            let checks: [(&str, i32, f64); 7] = [
                ("YEAR", 2, y as f64),
                ("MONTH", 3, m as f64),
                ("DAY", 4, d as f64),
                ("WEEKDAY", 5, (wd + 1) as f64),
                ("WEEKDAY(,2)", 6, (if wd == 0 { 7 } else { wd }) as f64),
                ("DATE", 7, s as f64),
                ("typed-iso-date", 8, s as f64),
            ];
            for (name, c, want) in checks {
                rep.n_checks += 1;
                if num(c) != Some(want) {
                    rep.mismatch("C21", "date-function", name, case.clone(), format!("got {:?} want {}", model.get_formatted_cell_value(0, r, c), want));
                }
            }
        }
    }
    // out-of-range serials must be rejected
    for s in [0i64, -1, 2_958_466] {
        rep.n_checks += 1;
        if from_excel_date(s).is_ok() {
            rep.mismatch("C21", "out-of-range-accepted", "from_excel_date", json!({"serial": s}), String::new());
        }
    }
    Ok(rep.finish())
}

// ------------------------------------------------------------------------------------------
// C22 grid codecs: JSON cases {k: col|ref|name, ...}

fn join(v: &Value) -> String {
    v.as_array().map(|a| a.iter().map(|x| x.as_str().unwrap_or("")).collect::<String>()).unwrap_or_default()
}

pub fn grid(path: &str, out_dir: &str) -> Result<Value, String> {
    use ironcalc_base::expressions::lexer::LexerMode;
    use ironcalc_base::expressions::parser::stringify::{to_localized_string, to_rc_format};
    use ironcalc_base::expressions::parser::{Node, Parser};
    use ironcalc_base::expressions::types::CellReferenceRC;
    use ironcalc_base::expressions::utils::{column_to_number, number_to_column, parse_reference_a1, quote_name};
    let mut rep = Report::new(out_dir)?;
    let locale = ironcalc_base::locale::get_locale("en").map_err(|_| "no locale".to_string())?;
    let language = ironcalc_base::language::get_language("en").map_err(|_| "no language".to_string())?;
    let f = std::fs::File::open(path).map_err(|e| e.to_string())?;
    let mut invalid_names = 0usize;
    for line in std::io::BufReader::new(f).lines() {
        let line = line.map_err(|e| e.to_string())?;
        let c: Value = match serde_json::from_str(&line) {
            Ok(v) => v,
            Err(_) => continue,
        };
        rep.n_cases += 1;
        match c["k"].as_str().unwrap_or("") {
            "col" => {
                let n = c["n"].as_i64().unwrap_or(0) as i32;
                let name = join(&c["name"]);
                rep.n_checks += 2;
                if number_to_column(n).as_deref() != Some(name.as_str()) {
                    rep.mismatch("C22", "column-number-to-letters", "number_to_column", c.clone(), format!("got {:?}", number_to_column(n)));
                }
                if column_to_number(&name) != Ok(n) {
                    rep.mismatch("C22", "column-letters-to-number", "column_to_number", c.clone(), format!("got {:?}", column_to_number(&name)));
                }
                rep.nontrivial.insert(format!("col-len{}", name.len()));
                if rep.samples.is_empty() {
                    rep.samples.push(c.clone());
                }
            }
            "ref" => {
                let (row, col) = (c["row"].as_i64().unwrap_or(0) as i32, c["col"].as_i64().unwrap_or(0) as i32);
                let (abs_r, abs_c) = (c["absR"].as_bool().unwrap_or(false), c["absC"].as_bool().unwrap_or(false));
                let (hr, hc) = (c["hostR"].as_i64().unwrap_or(1) as i32, c["hostC"].as_i64().unwrap_or(1) as i32);
                let a1 = join(&c["a1"]);
                let r1c1 = join(&c["r1c1"]);
                let ctx = CellReferenceRC { sheet: "Sheet1".to_string(), row: hr, column: hc };
                rep.n_checks += 1;
                match parse_reference_a1(&a1) {
                    Some(p) if p.row == row && p.column == col && p.absolute_row == abs_r && p.absolute_column == abs_c => {}
                    other => rep.mismatch("C22", "a1-text-parse", "parse_reference_a1", c.clone(), format!("got {:?}", other.map(|p| (p.row, p.column, p.absolute_row, p.absolute_column)))),
                }
                let mut parser = Parser::new(vec!["Sheet1".to_string()], vec![], std::collections::HashMap::new(), locale, language);
                let node = parser.parse(&a1, &ctx);
                let decode = |n: &Node| -> Option<(i32, i32, bool, bool)> {
                    if let Node::ReferenceKind { absolute_row, absolute_column, row: r, column: cc, .. } = n {
                        let tr = if *absolute_row { *r } else { hr + *r };
                        let tc = if *absolute_column { *cc } else { hc + *cc };
                        Some((tr, tc, *absolute_row, *absolute_column))
                    } else {
                        None
                    }
                };
                rep.n_checks += 1;
                if decode(&node) != Some((row, col, abs_r, abs_c)) {
                    rep.mismatch("C22", "a1-formula-parse", "Parser::parse", c.clone(), format!("got {:?}", decode(&node)));
                    continue;
                }
                rep.n_checks += 1;
                let printed = to_localized_string(&node, &ctx, locale, language);
                if printed != a1 {
                    rep.mismatch("C22", "a1-print", "to_localized_string", c.clone(), format!("got {printed}"));
                }
                // R1C1: the text the engine prints must parse back to the same reference (the property
                // does not fix the spelling, e.g. R[0]C[0] vs RC), and the spec's spelling must parse
                // to the same reference as well
                let rc = to_rc_format(&node);
                for (label, text) in [("r1c1-print-parse", rc.as_str()), ("r1c1-spec-text-parse", r1c1.as_str())] {
                    rep.n_checks += 1;
                    let mut p2 = Parser::new(vec!["Sheet1".to_string()], vec![], std::collections::HashMap::new(), locale, language);
                    p2.set_lexer_mode(LexerMode::R1C1);
                    let back = p2.parse(text, &ctx);
                    if back != node {
                        rep.mismatch("C22", label, "Parser::parse(R1C1)", c.clone(), format!("text {text} parsed to {:?}", decode(&back)));
                    }
                }
                rep.nontrivial.insert(format!("ref-{abs_r}-{abs_c}-{}", if row > hr { "below" } else if row < hr { "above" } else { "same" }));
                if rep.samples.len() < 2 {
                    rep.samples.push(c.clone());
                }
            }
            "range" => {
                let (hr, hc) = (c["hostR"].as_i64().unwrap_or(1) as i32, c["hostC"].as_i64().unwrap_or(1) as i32);
                let a1 = join(&c["a1"]);
                let ctx = CellReferenceRC { sheet: "Sheet1".to_string(), row: hr, column: hc };
                let want = (
                    c["r1"].as_i64().unwrap_or(0) as i32, c["c1"].as_i64().unwrap_or(0) as i32, c["absR1"].as_bool().unwrap_or(false), c["absC1"].as_bool().unwrap_or(false),
                    c["r2"].as_i64().unwrap_or(0) as i32, c["c2"].as_i64().unwrap_or(0) as i32, c["absR2"].as_bool().unwrap_or(false), c["absC2"].as_bool().unwrap_or(false),
                );
                let decode = |n: &Node| -> Option<(i32, i32, bool, bool, i32, i32, bool, bool)> {
                    if let Node::RangeKind { absolute_row1, absolute_column1, row1, column1, absolute_row2, absolute_column2, row2, column2, .. } = n {
                        Some((
                            if *absolute_row1 { *row1 } else { hr + *row1 }, if *absolute_column1 { *column1 } else { hc + *column1 }, *absolute_row1, *absolute_column1,
                            if *absolute_row2 { *row2 } else { hr + *row2 }, if *absolute_column2 { *column2 } else { hc + *column2 }, *absolute_row2, *absolute_column2,
                        ))
                    } else {
                        None
                    }
                };
                let mut parser = Parser::new(vec!["Sheet1".to_string()], vec![], std::collections::HashMap::new(), locale, language);
                let node = parser.parse(&a1, &ctx);
                rep.n_checks += 1;
                if decode(&node) != Some(want) {
                    rep.mismatch("C22", "range-parse", "Parser::parse", c.clone(), format!("got {:?}", decode(&node)));
                    continue;
                }
                for (label, text, r1c1) in [("range-a1-print-parse", to_localized_string(&node, &ctx, locale, language), false), ("range-r1c1-print-parse", to_rc_format(&node), true)] {
                    rep.n_checks += 1;
                    let mut p2 = Parser::new(vec!["Sheet1".to_string()], vec![], std::collections::HashMap::new(), locale, language);
                    if r1c1 {
                        p2.set_lexer_mode(LexerMode::R1C1);
                    }
                    let back = p2.parse(&text, &ctx);
                    if decode(&back) != Some(want) {
                        rep.mismatch("C22", label, "printer+parser", c.clone(), format!("printed {text} which parses to {:?}", decode(&back)));
                    }
                }
                rep.nontrivial.insert(format!("range-{}-{}-{}-{}", want.2, want.3, want.6, want.7));
            }
            "name" => {
                let name = join(&c["chars"]);
                let mut model = Model::new_empty("b", "en", "UTC", "en")?;
                model.new_sheet();
                if model.rename_sheet_by_index(1, &name).is_err() {
                    invalid_names += 1;
                    continue;
                }
                let q = quote_name(&name);
                model.set_user_input(1, 2, 2, "7".to_string())?;
                let text = format!("={}!B2+1", q);
                rep.n_checks += 1;
                let r = std::panic::catch_unwind(std::panic::AssertUnwindSafe(|| -> Result<(String, String, String), String> {
                    model.set_user_input(0, 1, 1, text.clone())?;
                    model.evaluate();
                    let v1 = model.get_formatted_cell_value(0, 1, 1)?;
                    let shown = model.get_localized_cell_content(0, 1, 1)?;
                    model.set_user_input(0, 2, 1, shown.clone())?;
                    model.evaluate();
                    let v2 = model.get_formatted_cell_value(0, 2, 1)?;
                    Ok((v1, shown, v2))
                }));
                match r {
                    Ok(Ok((v1, shown, v2))) => {
                        if v1 != "8" {
                            rep.mismatch("C22", "sheet-name-quote-lex", "quote_name+lexer", c.clone(), format!("typed {text} evaluates to {v1}"));
                        } else if v2 != "8" {
                            rep.mismatch("C22", "sheet-name-print-lex", "printer+lexer", c.clone(), format!("displayed {shown} evaluates to {v2}"));
                        }
                    }
                    Ok(Err(e)) => rep.mismatch("C22", "sheet-name-quote-lex", "quote_name+lexer", c.clone(), format!("error {e}")),
                    Err(_) => rep.mismatch("PANIC", "panic", "sheet-name", c.clone(), "panic".to_string()),
                }
                rep.nontrivial.insert(format!("name-{}", if q.starts_with('\'') { "quoted" } else { "bare" }));
                if q != name && join(&c["quoted"]) != q {
                    rep.no_verdict += 0; // informational only: the engine may quote differently from the spec
                }
                if rep.samples.len() < 3 {
                    rep.samples.push(c.clone());
                }
            }
            _ => {}
        }
    }
    let mut v = rep.finish();
    v["invalid_names_skipped"] = json!(invalid_names);
    Ok(v)
}

// ------------------------------------------------------------------------------------------
// C23 function / error names: the tables live in the implementation; every forward and inverse
// lookup is recorded as one event and validated by TLC against Lang.tla.

pub fn langdump(out_dir: &str) -> Result<Value, String> {
    use ironcalc_base::expressions::parser::{Node, Parser};
    use ironcalc_base::expressions::token::{get_error_by_english_name, get_error_by_name, Error};
    use ironcalc_base::expressions::types::CellReferenceRC;
    use ironcalc_base::Function;
    std::fs::create_dir_all(out_dir).map_err(|e| e.to_string())?;
    let mut out = std::io::BufWriter::new(std::fs::File::create(format!("{}/lang.ndjson", out_dir)).map_err(|e| e.to_string())?);
    let langs = ["en", "es", "fr", "de", "it"];
    let fns: Vec<Function> = Function::into_iter().collect();
    let index_of = |f: &Function| -> i64 { fns.iter().position(|g| g == f).map(|i| i as i64 + 1).unwrap_or(0) };
    let locale = ironcalc_base::locale::get_locale("en").map_err(|_| "no locale".to_string())?;
    let ctx = CellReferenceRC { sheet: "Sheet1".to_string(), row: 1, column: 1 };
    let mut n = 0usize;
    for (i, f) in fns.iter().enumerate() {
        let mut names = serde_json::Map::new();
        let mut back = serde_json::Map::new();
        for l in langs {
            let language = ironcalc_base::language::get_language(l).map_err(|_| "no language".to_string())?;
            let name = f.to_localized_name(language);
            let mut p = Parser::new(vec!["Sheet1".to_string()], vec![], std::collections::HashMap::new(), locale, language);
            // LAMBDA has its own node kind (it needs a parameter list and a body)
            let is_lambda = matches!(f, Function::Lambda);
            let node = if is_lambda { p.parse(&format!("{}(x,x)", name), &ctx) } else { p.parse(&format!("{}()", name), &ctx) };
            let b = match node {
                Node::FunctionKind { kind, .. } => index_of(&kind),
                Node::LambdaDefKind { .. } if is_lambda => index_of(f),
                _ => 0,
            };
            names.insert(l.to_string(), json!(name));
            back.insert(l.to_string(), json!(b));
        }
        let xlsx = f.to_xlsx_string();
        let english = ironcalc_base::language::get_language("en").map_err(|_| "no language".to_string())?;
        let mut p = Parser::new(vec!["Sheet1".to_string()], vec![], std::collections::HashMap::new(), locale, english);
        let is_lambda = matches!(f, Function::Lambda);
        let xb = match if is_lambda { p.parse(&format!("{}(_xlpm.x,_xlpm.x)", xlsx), &ctx) } else { p.parse(&format!("{}()", xlsx), &ctx) } {
            Node::FunctionKind { kind, .. } => index_of(&kind),
            Node::LambdaDefKind { .. } if is_lambda => index_of(f),
            _ => 0,
        };
        writeln!(out, "{}", json!({"ev": "fn", "id": i + 1, "names": names, "back": back, "xlsx": xlsx, "xlsx_back": xb})).ok();
        n += 1;
    }
    let errs = [Error::REF, Error::NAME, Error::VALUE, Error::DIV, Error::NA, Error::NUM, Error::ERROR, Error::NIMPL, Error::SPILL, Error::CALC, Error::CIRC, Error::NULL];
    let eidx = |e: &Error| -> i64 { errs.iter().position(|g| g == e).map(|i| i as i64 + 1).unwrap_or(0) };
    for (i, e) in errs.iter().enumerate() {
        let mut names = serde_json::Map::new();
        let mut back = serde_json::Map::new();
        let mut parsed = serde_json::Map::new();
        for l in langs {
            let language = ironcalc_base::language::get_language(l).map_err(|_| "no language".to_string())?;
            let name = e.to_localized_error_string(language);
            back.insert(l.to_string(), json!(get_error_by_name(&name, language).map(|x| eidx(&x)).unwrap_or(0)));
            let mut p = Parser::new(vec!["Sheet1".to_string()], vec![], std::collections::HashMap::new(), locale, language);
            let pb = match p.parse(&name, &ctx) {
                Node::ErrorKind(x) => eidx(&x),
                _ => 0,
            };
            parsed.insert(l.to_string(), json!(pb));
            names.insert(l.to_string(), json!(name));
        }
        let display = format!("{}", e);
        let xb = get_error_by_english_name(&display).map(|x| eidx(&x)).unwrap_or(0);
        writeln!(out, "{}", json!({"ev": "err", "id": i + 1, "names": names, "back": back, "parsed": parsed, "xlsx": display, "xlsx_back": xb})).ok();
        n += 1;
    }
    out.flush().ok();
    Ok(json!({"events": n, "functions": fns.len(), "errors": errs.len(), "languages": langs.len()}))
}

// ------------------------------------------------------------------------------------------
// C34 F4 cycling: {text, a, b, accepted: [texts], touched, maybe, one4, all4}

pub fn f4(path: &str, out_dir: &str) -> Result<Value, String> {
    let mut rep = Report::new(out_dir)?;
    let model = Model::new_empty("b", "en", "UTC", "en")?;
    let f = std::fs::File::open(path).map_err(|e| e.to_string())?;
    for line in std::io::BufReader::new(f).lines() {
        let line = line.map_err(|e| e.to_string())?;
        let c: Value = match serde_json::from_str(&line) {
            Ok(v) => v,
            Err(_) => continue,
        };
        rep.n_cases += 1;
        let text = join(&c["text"]);
        let (a, b) = (c["a"].as_u64().unwrap_or(0) as usize, c["b"].as_u64().unwrap_or(0) as usize);
        let accepted: Vec<String> = c["accepted"].as_array().map(|x| x.iter().map(join).collect()).unwrap_or_default();
        let small = json!({"text": text, "a": a, "b": b});
        let touched = c["touched"].as_u64().unwrap_or(0);
        let maybe = c["maybe"].as_u64().unwrap_or(0);
        for (sa, sb) in [(a, b), (b, a)] {
            rep.n_checks += 1;
            let r = std::panic::catch_unwind(std::panic::AssertUnwindSafe(|| model.cycle_reference(&text, sa, sb)));
            match r {
                Ok(Ok((out, ns, ne))) => {
                    if !accepted.contains(&out) {
                        let why = if touched == 0 && maybe == 0 { "untouched-formula-changed" } else { "cycle-result" };
                        rep.mismatch("C34", why, "cycle_reference", small.clone(), format!("got {out} accepted {:?}", accepted));
                    }
                    let n = out.chars().count() as i32;
                    if ns < 0 || ne < 0 || ns > n || ne > n {
                        rep.mismatch("C34", "cursor-out-of-bounds", "cycle_reference", small.clone(), format!("cursor ({ns},{ne}) text length {n}"));
                    }
                }
                Ok(Err(e)) => rep.mismatch("C34", "cycle-error", "cycle_reference", small.clone(), e),
                Err(_) => rep.mismatch("PANIC", "panic", "cycle_reference", small.clone(), "panic".into()),
            }
            if sa == sb {
                break;
            }
        }
        // period four with the cursor the engine returns, when exactly one reference is touched
        if touched == 1 && maybe == 0 && a == b {
            rep.n_checks += 1;
            let want = join(&c["one4"]);
            let mut t = text.clone();
            let (mut s, mut e) = (a, b);
            let mut ok = true;
            for _ in 0..4 {
                match model.cycle_reference(&t, s, e) {
                    Ok((o, ns, ne)) => {
                        t = o;
                        s = ns.max(0) as usize;
                        e = ne.max(0) as usize;
                    }
                    Err(_) => {
                        ok = false;
                        break;
                    }
                }
            }
            if !ok || t != want {
                rep.mismatch("C34", "period-four", "cycle_reference x4", small.clone(), format!("got {t} want {want}"));
            }
            rep.nontrivial.insert(format!("{}", text));
        }
        // period four over the whole formula
        if a == 0 && b == text.chars().count() {
            rep.n_checks += 1;
            let want = join(&c["all4"]);
            let mut t = text.clone();
            for _ in 0..4 {
                let n = t.chars().count();
                if let Ok((o, _, _)) = model.cycle_reference(&t, 0, n) {
                    t = o;
                }
            }
            if t != want {
                rep.mismatch("C34", "period-four", "cycle_reference x4 (whole formula)", small.clone(), format!("got {t} want {want}"));
            }
        }
        if rep.samples.len() < 3 && touched > 0 {
            rep.samples.push(json!({"text": text, "a": a, "b": b, "accepted": accepted}));
        }
    }
    Ok(rep.finish())
}

// ------------------------------------------------------------------------------------------
// C19 typed numbers: {s: [chars], locale, r: {v: num|not|nov, neg, digits, e10, kinds}}

fn fmt_kind(num_fmt: &str) -> &'static str {
    let f = num_fmt;
    if f.eq_ignore_ascii_case("general") {
        "general"
    } else if f.contains('%') {
        "percent"
    } else if f.contains('$') || f.contains('€') || f.contains('£') {
        "currency"
    } else if f.contains("E+") || f.contains("E-") {
        "scientific"
    } else if f.contains('y') || f.contains('d') || f.contains("mm") || f.contains('h') {
        "date"
    } else if f.contains("#,##0") {
        "grouped"
    } else {
        "other"
    }
}

pub fn numinput(path: &str, out_dir: &str) -> Result<Value, String> {
    let mut rep = Report::new(out_dir)?;
    let f = std::fs::File::open(path).map_err(|e| e.to_string())?;
    let mut models: std::collections::HashMap<String, Model> = Default::default();
    for line in std::io::BufReader::new(f).lines() {
        let line = line.map_err(|e| e.to_string())?;
        let c: Value = match serde_json::from_str(&line) {
            Ok(v) => v,
            Err(_) => continue,
        };
        rep.n_cases += 1;
        let text = join(&c["s"]);
        let loc = c["locale"].as_str().unwrap_or("en").to_string();
        let r = &c["r"];
        let verdict = r["v"].as_str().unwrap_or("");
        let small = json!({"text": text, "locale": loc, "spec": r});
        if verdict == "nov" {
            rep.no_verdict += 1;
            continue;
        }
        let model = match models.entry(loc.clone()) {
            std::collections::hash_map::Entry::Occupied(e) => e.into_mut(),
            std::collections::hash_map::Entry::Vacant(v) => {
                let l: &'static str = if loc == "de" { "de" } else { "en" };
                v.insert(Model::new_empty("b", l, "UTC", "en")?)
            }
        };
        // a fresh, default-styled cell for every case
        let row = (rep.n_cases % 1_000_000) as i32 + 1;
        rep.n_checks += 1;
        let res = std::panic::catch_unwind(std::panic::AssertUnwindSafe(|| model.set_user_input(0, row, 1, text.clone())));
        match res {
            Err(_) => {
                rep.mismatch("PANIC", "panic", "set_user_input", small, "panic".into());
                continue;
            }
            Ok(Err(e)) => {
                rep.mismatch("C19", "input-rejected", "set_user_input", small, e);
                continue;
            }
            Ok(Ok(())) => {}
        }
        let is_formula = model.get_cell_formula(0, row, 1).ok().flatten().is_some();
        let value = model.get_cell_value_by_index(0, row, 1).ok();
        let ty = model.get_cell_type(0, row, 1).ok();
        let num_fmt = model.get_style_for_cell(0, row, 1).map(|s| s.num_fmt).unwrap_or_default();
        let stored_number = match (&value, &ty) {
            (Some(ironcalc_base::cell::CellValue::Number(n)), Some(ironcalc_base::types::CellType::Number)) if !is_formula => Some(*n),
            _ => None,
        };
        match verdict {
            "num" => {
                let neg = r["neg"].as_bool().unwrap_or(false);
                let digits = join(&r["digits"]);
                let e10 = r["e10"].as_i64().unwrap_or(0);
                let want_text = format!("{}{}e{}", if neg { "-" } else { "" }, digits, e10);
                let want: f64 = want_text.parse().unwrap_or(f64::NAN);
                let kinds: Vec<String> = r["kinds"].as_array().map(|a| a.iter().map(|x| x.as_str().unwrap_or("").to_string()).collect()).unwrap_or_default();
                rep.nontrivial.insert(format!("{}:{}", kinds.first().cloned().unwrap_or_default(), text.chars().filter(|ch| !ch.is_ascii_digit()).collect::<String>()));
                match stored_number {
                    None => rep.mismatch("C19", "number-not-recognised", &kinds.join("+"), small, format!("stored as {:?} (formula: {is_formula}) want {want_text}", value)),
                    Some(n) => {
                        let close = if want == 0.0 { n == 0.0 } else { ((n - want) / want).abs() < 1e-14 };
                        if !close {
                            let why = if n == -want && want != 0.0 { "sign-lost" } else { "wrong-value" };
                            rep.mismatch("C19", why, &kinds.join("+"), small, format!("stored {n} want {want_text}"));
                        } else if !kinds.contains(&"any".to_string()) && !kinds.contains(&fmt_kind(&num_fmt).to_string()) {
                            rep.mismatch("C19", "format-kind", &kinds.join("+"), small, format!("format '{num_fmt}' is of kind {}", fmt_kind(&num_fmt)));
                        }
                    }
                }
                if rep.samples.len() < 3 && kinds[0] != "general" {
                    rep.samples.push(json!({"text": text, "locale": loc, "spec": r}));
                }
            }
            "not" => {
                if let Some(n) = stored_number {
                    rep.mismatch("C19", "non-number-stored-as-number", fmt_kind(&num_fmt), small, format!("stored {n} with format '{num_fmt}'"));
                }
            }
            _ => {}
        }
        if row % 2000 == 0 {
            // keep the sheet small
            let _ = model.range_clear_all(&ironcalc_base::expressions::types::Area { sheet: 0, row: 1, column: 1, width: 1, height: row });
        }
    }
    Ok(rep.finish())
}

// ------------------------------------------------------------------------------------------
// C20 number formats: {num: [chars], code: [chars], locale, dec, kind, r: {v: text|nov, text}}

pub fn numformat(path: &str, out_dir: &str) -> Result<Value, String> {
    use ironcalc_base::formatter::format::format_number;
    let mut rep = Report::new(out_dir)?;
    let f = std::fs::File::open(path).map_err(|e| e.to_string())?;
    let mut model = Model::new_empty("b", "en", "UTC", "en")?;
    let mut model_de = Model::new_empty("b", "de", "UTC", "en")?;
    let mut row = 0;
    for line in std::io::BufReader::new(f).lines() {
        let line = line.map_err(|e| e.to_string())?;
        let c: Value = match serde_json::from_str(&line) {
            Ok(v) => v,
            Err(_) => continue,
        };
        rep.n_cases += 1;
        let num = join(&c["num"]);
        let code = join(&c["code"]);
        let loc = c["locale"].as_str().unwrap_or("en");
        let r = &c["r"];
        if r["v"] != "text" {
            rep.no_verdict += 1;
            continue;
        }
        let want = join(&r["text"]);
        let value: f64 = match num.parse() {
            Ok(v) => v,
            Err(_) => continue,
        };
        let locale = ironcalc_base::locale::get_locale(loc).map_err(|_| "no locale".to_string())?;
        let small = json!({"number": num, "format": code, "locale": loc, "want": want});
        rep.n_checks += 1;
        let res = std::panic::catch_unwind(|| format_number(value, &code, locale));
        let got = match res {
            Ok(g) => g,
            Err(_) => {
                rep.mismatch("PANIC", "panic", "format_number", small, "panic".into());
                continue;
            }
        };
        // a case is non-trivial when rounding actually drops digits
        let frac_len = num.split('e').nth(1).and_then(|e| e.parse::<i64>().ok()).map(|e| -e).unwrap_or(0);
        let dec = c["dec"].as_i64().unwrap_or(0) + if code.contains('%') { -2 } else { 0 };
        if frac_len > dec {
            rep.nontrivial.insert(format!("{num}|{code}"));
        }
        if let Some(e) = &got.error {
            rep.mismatch("C20", "format-error", c["kind"].as_str().unwrap_or(""), small, e.clone());
            continue;
        }
        if got.text != want {
            // classify: a tie that was not rounded away from zero, or something else
            let why = if got.text.len() == want.len() { "rounding" } else { "shape" };
            rep.mismatch("C20", why, &format!("{}:{}", c["kind"].as_str().unwrap_or(""), code), small, format!("got '{}'", got.text));
            continue;
        }
        // the same through a cell (every 16th case, to bound the cost)
        if rep.n_cases % 16 == 0 {
            rep.n_checks += 1;
            row += 1;
            let m = if loc == "de" { &mut model_de } else { &mut model };
            let mut st = ironcalc_base::types::Style::default();
            st.num_fmt = code.clone();
            let _ = m.update_cell_with_number(0, row, 1, value);
            let _ = m.set_cell_style(0, row, 1, &st);
            let shown = m.get_formatted_cell_value(0, row, 1).unwrap_or_default();
            if shown != want {
                rep.mismatch("C20", "cell-display", &format!("{}:{}", c["kind"].as_str().unwrap_or(""), code), small, format!("got '{shown}'"));
            }
        }
        if rep.samples.len() < 3 && frac_len > dec {
            rep.samples.push(json!({"number": num, "format": code, "locale": loc, "text": want}));
        }
    }
    Ok(rep.finish())
}

// ------------------------------------------------------------------------------------------
// C11 text inputs never crash: {tokens: [spelling, ...]}.  A watchdog turns a call that does not
// return into a reported timeout; progress is checkpointed so that an abort (stack overflow)
// can be attributed to a slice of cases.

pub fn tokens(path: &str, out_dir: &str, thorough: bool, skip: usize) -> Result<Value, String> {
    use ironcalc_base::expressions::lexer::LexerMode;
    use ironcalc_base::expressions::parser::Parser;
    use ironcalc_base::expressions::types::CellReferenceRC;
    use ironcalc_base::formatter::format::format_number;
    use std::sync::atomic::{AtomicU64, Ordering};
    use std::sync::{Arc, Mutex};
    let mut rep = Report::new(out_dir)?;
    let pairs: Vec<(&'static str, &'static str)> = if thorough {
        let mut v = vec![];
        for l in crate::formula::LANGS {
            for loc in crate::formula::LOCALES {
                v.push((*l, *loc));
            }
        }
        v
    } else {
        vec![("en", "en"), ("de", "de"), ("fr", "es")]
    };
    let numbers = [0.0, 1.0, -1.0, 0.5, -0.5, 1e-320, 1e308, 9007199254740993.0, f64::NAN, f64::INFINITY, f64::NEG_INFINITY];
    // watchdog
    let started = Arc::new(AtomicU64::new(0));
    let current = Arc::new(Mutex::new(String::new()));
    let (st2, cur2, od) = (started.clone(), current.clone(), out_dir.to_string());
    let t0 = std::time::Instant::now();
    std::thread::spawn(move || loop {
        std::thread::sleep(std::time::Duration::from_millis(250));
        let s = st2.load(Ordering::Relaxed);
        if s > 0 && t0.elapsed().as_millis() as u64 > s + 60000 {
            let c = cur2.lock().map(|g| g.clone()).unwrap_or_default();
            let _ = std::fs::write(format!("{}/TIMEOUT.json", od), c);
            std::process::exit(3);
        }
    });
    let ctx = CellReferenceRC { sheet: "Sheet1".to_string(), row: 1, column: 1 };
    let f = std::fs::File::open(path).map_err(|e| e.to_string())?;
    let mut models: Vec<(ironcalc_base::Model, &'static ironcalc_base::locale::Locale, &'static ironcalc_base::language::Language)> = vec![];
    for (l, loc) in &pairs {
        models.push((
            ironcalc_base::Model::new_empty("b", loc, "UTC", l)?,
            ironcalc_base::locale::get_locale(loc).map_err(|_| "locale")?,
            ironcalc_base::language::get_language(l).map_err(|_| "language")?,
        ));
    }
    let mut idx = 0usize;
    for line in std::io::BufReader::new(f).lines() {
        let line = line.map_err(|e| e.to_string())?;
        let c: Value = match serde_json::from_str(&line) {
            Ok(v) => v,
            Err(_) => continue,
        };
        idx += 1;
        if idx <= skip {
            continue;
        }
        rep.n_cases += 1;
        let text: String = c["tokens"].as_array().map(|a| a.iter().map(|x| x.as_str().unwrap_or("")).collect::<String>()).unwrap_or_default()
            .replace("<NUL>", "\0").replace("<TAB>", "\t").replace("<NL>", "\n");
        if idx % 64 == 1 {
            let _ = std::fs::write(format!("{}/PROGRESS", out_dir), format!("{idx}"));
        }
        if let Ok(mut g) = current.lock() {
            *g = json!({"text": text, "index": idx}).to_string();
        }
        started.store(t0.elapsed().as_millis() as u64 + 1, Ordering::Relaxed);
        let n_chars = text.chars().count();
        for (pi, (model, locale, language)) in models.iter_mut().enumerate() {
            let small = json!({"text": text, "lang": pairs[pi].0, "locale": pairs[pi].1});
            let mut call = |name: &str, f: &mut dyn FnMut()| {
                rep.n_checks += 1;
                if let Ok(mut g) = current.lock() {
                    *g = json!({"text": text, "index": idx, "call": name, "lang": pairs[pi].0, "locale": pairs[pi].1}).to_string();
                }
                if std::panic::catch_unwind(std::panic::AssertUnwindSafe(|| f())).is_err() {
                    rep.mismatch("C11", "panic", name, small.clone(), String::new());
                }
            };
            let (loc, lang) = (*locale, *language);
            call("Parser::parse", &mut || {
                let mut p = Parser::new(vec!["Sheet1".to_string(), "My Sheet".to_string()], vec![], std::collections::HashMap::new(), loc, lang);
                let _ = p.parse(&text, &ctx);
            });
            call("Parser::parse(R1C1)", &mut || {
                let mut p = Parser::new(vec!["Sheet1".to_string(), "My Sheet".to_string()], vec![], std::collections::HashMap::new(), loc, lang);
                p.set_lexer_mode(LexerMode::R1C1);
                let _ = p.parse(&text, &ctx);
            });
            // the same two cells for every case, cleared afterwards: nothing accumulates in the workbook
            let row = 1;
            call("Model::set_user_input(formula)", &mut || {
                let _ = model.set_user_input(0, row, 1, format!("={text}"));
                // a range over whole columns or rows evaluates to an array of a million cells per
                // column, which takes unbounded time and memory (recorded in DESIGN.md); formulas
                // with a range operator are parsed and stored but not evaluated here
                if !text.contains(':') {
                    model.evaluate();
                }
                let _ = model.get_formatted_cell_value(0, row, 1);
                let _ = model.get_localized_cell_content(0, row, 1);
            });
            call("Model::set_user_input(text)", &mut || {
                let _ = model.set_user_input(0, row, 2, text.clone());
                // (column 1 still holds "=<text>": same reason as above)
                if !text.contains(':') {
                    model.evaluate();
                }
                let _ = model.get_formatted_cell_value(0, row, 2);
                let _ = model.get_localized_cell_content(0, row, 2);
            });
            call("Model::range_clear_all", &mut || {
                let _ = model.range_clear_all(&ironcalc_base::expressions::types::Area { sheet: 0, row: 1, column: 1, width: 2, height: 1 });
            });
            call("Model::formula_completion", &mut || {
                let ftext = format!("={text}");
                for cur in 0..=(n_chars + 1) {
                    let _ = model.formula_completion(0, 1, 5, &ftext, cur);
                }
            });
            call("Model::cycle_reference", &mut || {
                let ftext = format!("={text}");
                for a in 0..=(n_chars + 1) {
                    let _ = model.cycle_reference(&ftext, a, a);
                    let _ = model.cycle_reference(&ftext, 0, a);
                }
                let _ = model.cycle_reference(&ftext, n_chars + 5, 0);
            });
            if pi == 0 || thorough {
                call("format_number", &mut || {
                    for x in numbers {
                        let _ = format_number(x, &text, loc);
                    }
                });
            }
        }
        if rep.samples.len() < 3 && idx % 5000 == 7 {
            rep.samples.push(json!({"text": text}));
        }
        rep.nontrivial.insert(c["tokens"].as_array().map(|a| a.iter().map(|x| x.as_str().unwrap_or("")).collect::<Vec<_>>().join("\u{1}")).unwrap_or_default());
    }
    started.store(0, Ordering::Relaxed);
    let mut v = rep.finish();
    v["language_locale_pairs"] = json!(pairs.len());
    Ok(v)
}

// ------------------------------------------------------------------------------------------
// C08 no non-finite numbers stored: {args: [class, ...], shape}, crossed with every built-in
// function and operator.

fn arg_literal(class: &str) -> &'static str {
    match class {
        "huge" => "1E308",
        "tiny" => "1E-308",
        "neghuge" => "-1E308",
        "zero" => "0",
        "one" => "1",
        "negone" => "-1",
        "half" => "0.5",
        "empty" => "",
        "true" => "TRUE",
        "text" => "\"text\"",
        "hugetext" => "\"1E308\"",
        "inftext" => "\"inf\"",
        "div0" => "#DIV/0!",
        _ => "1",
    }
}

fn scan_nonfinite(model: &Model) -> Vec<(i32, i32, String)> {
    use ironcalc_base::types::{Cell, FormulaValue, SpillValue};
    let mut bad = vec![];
    for ws in &model.workbook.worksheets {
        for (r, row) in &ws.sheet_data {
            for (c, cell) in row {
                let v = match cell {
                    Cell::NumberCell { v, .. } => Some(*v),
                    Cell::CellFormula { v: FormulaValue::Number(x), .. } => Some(*x),
                    Cell::ArrayFormula { v: FormulaValue::Number(x), .. } => Some(*x),
                    Cell::SpillCell { v: SpillValue::Number(x), .. } => Some(*x),
                    _ => None,
                };
                if let Some(x) = v {
                    if !x.is_finite() {
                        bad.push((*r, *c, crate::project::num_class(x).to_string()));
                    }
                }
            }
        }
    }
    bad
}

/// Functions whose running time or result size is proportional to the VALUE of an argument do
/// not return in reasonable time for huge arguments (SEQUENCE(1E308), REPT("x",1E308), ...).
/// Each function is probed alone, in its own thread, with a one-second limit; the ones that do
/// not return are left out of the sweep and listed in the evidence.
fn probe_unbounded(fns: &[String]) -> Vec<String> {
    // every probe is a child process of this executable (`icverif evalone <formula>`), so that one
    // that does not return can be killed
    let exe = match std::env::current_exe() {
        Ok(e) => e,
        Err(_) => return vec![],
    };
    let vals = ["1E308", "-1E308", "0.5", "1", "1E-308"];
    let mut probes: Vec<String> = vals.iter().map(|v| v.to_string()).collect();
    for a in vals {
        for b in vals {
            if a.contains("308") || b.contains("308") {
                probes.push(format!("{a},{b}"));
            }
        }
    }
    probes.push("\"text\",1E308".to_string());
    probes.push("1E308,1,1".to_string());
    probes.push("1,1E308,1".to_string());
    probes.push("1,1,1E308".to_string());
    let slow = std::sync::Mutex::new(Vec::<String>::new());
    let next = std::sync::atomic::AtomicUsize::new(0);
    std::thread::scope(|sc| {
        for _ in 0..8 {
            sc.spawn(|| loop {
                let i = next.fetch_add(1, std::sync::atomic::Ordering::Relaxed);
                if i >= fns.len() {
                    break;
                }
                let name = &fns[i];
                'probes: for args in &probes {
                    let f = format!("={}({})", name, args);
                    let child = std::process::Command::new(&exe).arg("evalone").arg("--f").arg(&f)
                        .stdout(std::process::Stdio::null()).stderr(std::process::Stdio::null()).spawn();
                    if let Ok(mut ch) = child {
                        let t0 = std::time::Instant::now();
                        loop {
                            match ch.try_wait() {
                                Ok(Some(_)) => break,
                                Ok(None) => {
                                    if t0.elapsed().as_millis() > 1500 {
                                        let _ = ch.kill();
                                        let _ = ch.wait();
                                        if let Ok(mut g) = slow.lock() {
                                            g.push(name.clone());
                                        }
                                        break 'probes;
                                    }
                                    std::thread::sleep(std::time::Duration::from_millis(2));
                                }
                                Err(_) => break,
                            }
                        }
                    }
                }
            });
        }
    });
    let mut v = slow.into_inner().unwrap_or_default();
    v.sort();
    v
}

pub fn evalone(formula: &str) -> Result<Value, String> {
    let mut m = Model::new_empty("b", "en", "UTC", "en")?;
    let _ = m.set_user_input(0, 1, 1, formula.to_string());
    m.evaluate();
    Ok(json!({"value": m.get_formatted_cell_value(0, 1, 1).unwrap_or_default()}))
}

pub fn finite(path: &str, out_dir: &str, thorough: bool, skip: usize) -> Result<Value, String> {
    use ironcalc_base::Function;
    let mut rep = Report::new(out_dir)?;
    let language = ironcalc_base::language::get_language("en").map_err(|_| "language")?;
    let all_fns: Vec<String> = Function::into_iter().map(|f| f.to_localized_name(language)).collect();
    // quick tier: the functions the probe found on the pinned tree; thorough tier: probe again
    let unbounded: Vec<String> = if thorough {
        // probed once per run: a restart after a watchdog stop reads the list back
        let cache = format!("{}/unbounded.json", out_dir);
        match std::fs::read_to_string(&cache).ok().and_then(|t| serde_json::from_str::<Vec<String>>(&t).ok()) {
            Some(v) if skip > 0 => v,
            _ => {
                let v = probe_unbounded(&all_fns);
                let _ = std::fs::write(&cache, serde_json::to_string(&v).unwrap_or_default());
                v
            }
        }
    } else {
        ["BESSELJ", "BESSELK", "COMBIN", "COMBINA", "FACT", "FACTDOUBLE", "MULTINOMIAL", "PERMUT", "REPT", "T.INV.2T", "TINV"].iter().map(|x| x.to_string()).collect()
    };
    let fns: Vec<String> = all_fns.iter().filter(|n| !unbounded.contains(n)).cloned().collect();
    // watchdog for the sweep itself
    let started = std::sync::Arc::new(std::sync::atomic::AtomicU64::new(0));
    let current = std::sync::Arc::new(std::sync::Mutex::new(String::new()));
    {
        let (st2, cur2, od) = (started.clone(), current.clone(), out_dir.to_string());
        let t0 = std::time::Instant::now();
        std::thread::spawn(move || loop {
            std::thread::sleep(std::time::Duration::from_millis(500));
            let s = st2.load(std::sync::atomic::Ordering::Relaxed);
            if s > 0 && t0.elapsed().as_secs() > s + 20 {
                let c = cur2.lock().map(|g| g.clone()).unwrap_or_default();
                let _ = std::fs::write(format!("{}/TIMEOUT.json", od), c);
                std::process::exit(3);
            }
        });
    }
    let sweep_t0 = std::time::Instant::now();
    let ops2 = ["+", "-", "*", "/", "^", "&", "=", "<", ">", "<=", ">=", "<>"];
    let f = std::fs::File::open(path).map_err(|e| e.to_string())?;
    let mut cases: Vec<Value> = vec![];
    for line in std::io::BufReader::new(f).lines() {
        let line = line.map_err(|e| e.to_string())?;
        if let Ok(v) = serde_json::from_str::<Value>(&line) {
            cases.push(v);
        }
    }
    for (ci, c) in cases.iter().enumerate() {
        if ci < skip {
            continue;
        }
        rep.n_cases += 1;
        let classes: Vec<&str> = c["args"].as_array().map(|a| a.iter().map(|x| x.as_str().unwrap_or("")).collect()).unwrap_or_default();
        let shape = c["shape"].as_str().unwrap_or("scalar");
        if !thorough && matches!(shape, "viaref" | "range") && classes.len() > 1 && rep.n_cases % 3 != 0 {
            continue; // quick tier: a third of the by-reference vectors of length 2
        }
        // argument texts per shape; referenced cells live in row 10
        let mut setup: Vec<(i32, i32, String)> = vec![];
        let mut args: Vec<String> = vec![];
        let mut representable = true;
        for (i, cl) in classes.iter().enumerate() {
            let lit = arg_literal(cl);
            let col = (i as i32) + 2;
            match shape {
                "scalar" | "cse" | "spill" => {
                    if lit.is_empty() {
                        args.push("Z99".to_string()); // an empty cell
                    } else {
                        args.push(lit.to_string());
                    }
                }
                "viaref" => {
                    setup.push((10, col, if *cl == "div0" { "=1/0".to_string() } else { lit.trim_matches('"').to_string() }));
                    args.push(format!("{}10", (b'A' + col as u8 - 1) as char));
                }
                "range" => {
                    setup.push((10, col, if *cl == "div0" { "=1/0".to_string() } else { lit.trim_matches('"').to_string() }));
                    setup.push((11, col, "1".to_string()));
                    let ch = (b'A' + col as u8 - 1) as char;
                    args.push(format!("{ch}10:{ch}11"));
                }
                "arraylit" => {
                    if lit.is_empty() {
                        representable = false;
                    }
                    args.push(format!("{{{},1}}", lit));
                }
                _ => {}
            }
        }
        if !representable {
            rep.no_verdict += 1;
            continue;
        }
        let arglist = args.join(",");
        let mut formulas: Vec<(String, String)> = vec![];
        for name in &fns {
            formulas.push((name.clone(), format!("={}({})", name, arglist)));
        }
        if args.len() == 2 {
            for op in ops2 {
                formulas.push((format!("op{op}"), format!("={}{}{}", args[0], op, args[1])));
            }
        }
        if args.len() == 1 {
            formulas.push(("op-neg".into(), format!("=-{}", args[0])));
            formulas.push(("op%".into(), format!("={}%", args[0])));
            formulas.push(("op*10".into(), format!("={}*10", args[0])));
            formulas.push(("op^2".into(), format!("={}^2", args[0])));
        }
        // batch: one model, every formula in its own row (columns F.. for results so that spills have room)
        let mut model = Model::new_empty("b", "en", "UTC", "en")?;
        for (r, col, text) in &setup {
            let _ = model.set_user_input(0, *r, *col, text.clone());
        }
        let base_row = 20;
        for (i, (_name, ftext)) in formulas.iter().enumerate() {
            let r = base_row + (i as i32) * 3;
            let res = std::panic::catch_unwind(std::panic::AssertUnwindSafe(|| match shape {
                "cse" => model.set_user_array_formula(0, r, 6, 2, 1, ftext),
                "spill" => model.set_user_input(0, r, 6, format!("{}*{{1,2}}", ftext)),
                _ => model.set_user_input(0, r, 6, ftext.clone()),
            }));
            if res.is_err() {
                rep.mismatch("PANIC", "panic", &formulas[i].0, json!({"formula": ftext, "shape": shape}), "panic while entering".into());
            }
        }
        if let Ok(mut g) = current.lock() {
            *g = json!({"args": classes, "shape": shape, "index": ci}).to_string();
        }
        started.store(sweep_t0.elapsed().as_secs() + 1, std::sync::atomic::Ordering::Relaxed);
        let ev = std::panic::catch_unwind(std::panic::AssertUnwindSafe(|| model.evaluate()));
        rep.n_checks += formulas.len();
        if ev.is_err() {
            // a formula of the batch panicked: evaluate each one alone to name it (and to still
            // scan the others)
            for (name, ftext) in formulas.iter() {
                let r = std::panic::catch_unwind(|| -> Option<Vec<(i32, i32, String)>> {
                    let mut m = Model::new_empty("b", "en", "UTC", "en").ok()?;
                    for (r, col, text) in &setup {
                        let _ = m.set_user_input(0, *r, *col, text.clone());
                    }
                    match shape {
                        "cse" => { let _ = m.set_user_array_formula(0, 20, 6, 2, 1, ftext); }
                        "spill" => { let _ = m.set_user_input(0, 20, 6, format!("{}*{{1,2}}", ftext)); }
                        _ => { let _ = m.set_user_input(0, 20, 6, ftext.clone()); }
                    }
                    m.evaluate();
                    Some(scan_nonfinite(&m))
                });
                match r {
                    Err(_) => rep.mismatch("C08", "panic", &format!("eval:{name}"), json!({"formula": ftext, "shape": shape, "args": classes}), "evaluation panicked".into()),
                    Ok(Some(bad)) => {
                        for (r2, c2, class) in bad {
                            rep.mismatch("C08", &format!("stored-{class}"), &format!("{shape}:{name}"), json!({"formula": ftext, "shape": shape, "args": classes, "cell": [r2, c2]}), String::new());
                        }
                    }
                    _ => {}
                }
            }
            continue;
        }
        for (r, col, class) in scan_nonfinite(&model) {
            let i = ((r - base_row) / 3) as usize;
            let (name, ftext) = formulas.get(i).cloned().unwrap_or(("setup".into(), "".into()));
            let _ = col;
            rep.mismatch("C08", &format!("stored-{class}"), &format!("{shape}:{name}"), json!({"formula": ftext, "shape": shape, "args": classes, "cell": [r, col]}), String::new());
        }
        rep.nontrivial.insert(format!("{}|{}", shape, classes.join(",")));
        if rep.samples.len() < 3 && classes.len() == 2 {
            rep.samples.push(json!({"args": classes, "shape": shape, "example": formulas.get(7).map(|x| x.1.clone())}));
        }
    }
    // numbers typed by the user
    let mut model = Model::new_empty("b", "en", "UTC", "en")?;
    for (i, t) in ["1e308", "1e309", "-1e309", "1e999", "9e999%", "$1e400", "inf", "nan", "Infinity", "-inf", "1e-400", "2e308"].iter().enumerate() {
        rep.n_checks += 1;
        let _ = model.set_user_input(0, (i + 1) as i32, 1, t.to_string());
    }
    model.evaluate();
    for (r, _c, class) in scan_nonfinite(&model) {
        rep.mismatch("C08", &format!("stored-{class}"), "typed-number", json!({"row": r}), String::new());
    }
    started.store(0, std::sync::atomic::Ordering::Relaxed);
    let mut v = rep.finish();
    v["functions"] = json!(fns.len());
    v["excluded_unbounded_functions"] = json!(unbounded);
    Ok(v)
}
