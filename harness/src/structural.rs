//! C12-C15, C33: replay of Structural.tla behaviours.  The initial abstract workbook is built
//! through the public API, every structural action is applied with the UserModel call of the
//! same name, and after each step the real workbook is compared with the spec state: cell
//! positions and contents, references of every formula (targets + $ flags, read with the real
//! parser from the displayed formula), values of the formulas the spec says are preserved,
//! row heights, column widths, hyperlinks and the conditional-format area.

use ironcalc_base::expressions::parser::{Node, Parser};
use ironcalc_base::expressions::types::CellReferenceRC;
use ironcalc_base::expressions::utils::number_to_column;
use ironcalc_base::UserModel;
use serde_json::{json, Value};
use std::collections::{BTreeMap, BTreeSet};
use std::io::{BufRead, Write};

fn a1(r: i64, c: i64, ar: bool, ac: bool) -> String {
    format!("{}{}{}{}", if ac { "$" } else { "" }, number_to_column(c as i32).unwrap_or("?".into()), if ar { "$" } else { "" }, r)
}

fn ref_text(rf: &Value, host_sheet: i64) -> String {
    let s = rf["s"].as_i64().unwrap_or(1);
    let prefix = if s != host_sheet { format!("Sheet{}!", s) } else { String::new() };
    let e1 = a1(rf["r1"].as_i64().unwrap_or(1), rf["c1"].as_i64().unwrap_or(1), rf["ar1"].as_bool().unwrap_or(false), rf["ac1"].as_bool().unwrap_or(false));
    let col = |c: &Value, abs: &Value| format!("{}{}", if abs.as_bool().unwrap_or(false) { "$" } else { "" }, number_to_column(c.as_i64().unwrap_or(1) as i32).unwrap_or("?".into()));
    let row = |r: &Value, abs: &Value| format!("{}{}", if abs.as_bool().unwrap_or(false) { "$" } else { "" }, r);
    if rf["kind"] == "name" {
        rf["name"].as_str().unwrap_or("N1").to_string()
    } else if rf["kind"] == "cols" {
        format!("SUM({prefix}{}:{})", col(&rf["c1"], &rf["ac1"]), col(&rf["c2"], &rf["ac2"]))
    } else if rf["kind"] == "rows" {
        format!("SUM({prefix}{}:{})", row(&rf["r1"], &rf["ar1"]), row(&rf["r2"], &rf["ar2"]))
    } else if rf["kind"] == "cell" {
        format!("{prefix}{e1}")
    } else {
        let e2 = a1(rf["r2"].as_i64().unwrap_or(1), rf["c2"].as_i64().unwrap_or(1), rf["ar2"].as_bool().unwrap_or(false), rf["ac2"].as_bool().unwrap_or(false));
        format!("SUM({prefix}{e1}:{e2})")
    }
}

/// what is typed for a literal id (the vocabulary of Structural.tla's Lit(id))
fn lit_text(k: &str, id: i64) -> String {
    match (k, id) {
        ("qtext", _) => format!("'00{}", id),
        (_, 102) => "TRUE".into(),
        (_, 103) => "0.123456789012345".into(),
        (_, 104) => "hello world".into(),
        (_, 105) => "'TRUE".into(),
        (_, 106) => "1e3".into(),
        (_, 107) => "2024-01-15".into(),
        (_, 108) => "50%".into(),
        (_, 109) => "$5.5".into(),
        (_, 110) => "'=A1".into(),
        (_, 111) => "#N/A".into(),
        (_, 112) => "https://example.com/x".into(),
        (_, 113) => "'1e3".into(),
        _ => format!("{}", id),
    }
}

fn formula_text(v: &Value, host_sheet: i64) -> String {
    let parts: Vec<String> = v["refs"].as_array().map(|a| a.iter().map(|r| ref_text(r, host_sheet)).collect()).unwrap_or_default();
    format!("={}", parts.join("+"))
}

/// references of a parsed formula in textual order: (kind, sheet(1-based), r1, c1, ar1, ac1, r2, c2, ar2, ac2) or "referr"
fn collect_refs(n: &Node, host: (i32, i32), out: &mut Vec<Value>) {
    let abs = |is_abs: bool, v: i32, h: i32| if is_abs { v } else { h + v };
    match n {
        Node::ReferenceKind { sheet_index, absolute_row, absolute_column, row, column, .. } => {
            let (r, c) = (abs(*absolute_row, *row, host.0), abs(*absolute_column, *column, host.1));
            out.push(json!({"kind": "cell", "s": *sheet_index + 1, "r1": r, "c1": c, "ar1": absolute_row, "ac1": absolute_column, "r2": r, "c2": c, "ar2": absolute_row, "ac2": absolute_column}));
        }
        Node::RangeKind { sheet_index, absolute_row1, absolute_column1, row1, column1, absolute_row2, absolute_column2, row2, column2, .. } => {
            out.push(json!({"kind": "range", "s": *sheet_index + 1,
                "r1": abs(*absolute_row1, *row1, host.0), "c1": abs(*absolute_column1, *column1, host.1), "ar1": absolute_row1, "ac1": absolute_column1,
                "r2": abs(*absolute_row2, *row2, host.0), "c2": abs(*absolute_column2, *column2, host.1), "ar2": absolute_row2, "ac2": absolute_column2}));
        }
        Node::DefinedNameKind(d) => out.push(json!({"kind": "name", "name": d.0})),
        Node::WrongReferenceKind { .. } | Node::WrongRangeKind { .. } => out.push(json!("referr")),
        Node::ErrorKind(e) if format!("{e}") == "#REF!" => out.push(json!("referr")),
        Node::OpSumKind { left, right, .. } | Node::OpProductKind { left, right, .. } | Node::OpPowerKind { left, right }
        | Node::OpConcatenateKind { left, right } | Node::CompareKind { left, right, .. } => {
            collect_refs(left, host, out);
            collect_refs(right, host, out);
        }
        Node::OpRangeKind { left, right } => {
            // "#REF!:#REF!" (or a range one of whose ends is #REF!) is one broken range
            let mut inner = vec![];
            collect_refs(left, host, &mut inner);
            collect_refs(right, host, &mut inner);
            if !inner.is_empty() && inner.iter().any(|x| x == "referr") {
                out.push(json!("referr"));
            } else {
                out.extend(inner);
            }
        }
        Node::UnaryKind { right, .. } => collect_refs(right, host, out),
        Node::FunctionKind { args, .. } | Node::NamedFunctionKind { args, .. } => {
            for a in args {
                collect_refs(a, host, out);
            }
        }
        Node::ImplicitIntersection { child, .. } | Node::SpillRangeOperator { child } => collect_refs(child, host, out),
        _ => {}
    }
}

fn spec_ref_matches(want: &Value, got: &Value) -> bool {
    match want["st"].as_str().unwrap_or("ok") {
        "open" => true,
        "referr" => got == "referr",
        _ => {
            if got == "referr" {
                return false;
            }
            match want["kind"].as_str().unwrap_or("") {
                "name" => return got["kind"] == "name" && got["name"] == want["name"],
                "cols" => {
                    return got["kind"] == "range" && got["r1"] == 1 && got["r2"] == 1_048_576 && ["s", "c1", "c2", "ac1", "ac2"].iter().all(|k| want[*k] == got[*k]);
                }
                "rows" => {
                    return got["kind"] == "range" && got["c1"] == 1 && got["c2"] == 16_384 && ["s", "r1", "r2", "ar1", "ar2"].iter().all(|k| want[*k] == got[*k]);
                }
                _ => {}
            }
            for k in ["kind", "s", "r1", "c1", "ar1", "ac1", "r2", "c2", "ar2", "ac2"] {
                if want[k] != got[k] {
                    return false;
                }
            }
            true
        }
    }
}

/// top-left cell of the first area of a sqref like "B2:D3" (or (1,1) if it cannot be read)
pub fn anchor_of(sqref: &str) -> (i32, i32) {
    let first = sqref.split(' ').next().unwrap_or("").split(':').next().unwrap_or("").replace('$', "");
    let letters: String = first.chars().take_while(|c| c.is_ascii_alphabetic()).collect();
    let digits: String = first.chars().skip_while(|c| c.is_ascii_alphabetic()).collect();
    let col = ironcalc_base::expressions::utils::column_to_number(&letters).unwrap_or(1);
    (digits.parse().unwrap_or(1), col)
}

struct Obs {
    cells: BTreeMap<(i64, i64, i64), Value>, // (s, r, c) -> {content, type, value, fmt}
}

fn observe(um: &UserModel) -> Obs {
    let mut cells = BTreeMap::new();
    let m = um.get_model();
    for (si, ws) in m.workbook.worksheets.iter().enumerate() {
        for (r, row) in &ws.sheet_data {
            for c in row.keys() {
                let content = m.get_localized_cell_content(si as u32, *r, *c).unwrap_or_default();
                let fmt = m.get_formatted_cell_value(si as u32, *r, *c).unwrap_or_default();
                // an empty cell that only carries a style (possibly with the quote prefix) is not content
                if content.is_empty() || (content == "'" && fmt.is_empty()) {
                    continue;
                }
                let ty = m.get_cell_type(si as u32, *r, *c).map(|t| crate::project::cell_type_name(&t)).unwrap_or("?");
                let bold = m.get_style_for_cell(si as u32, *r, *c).map(|s| s.font.b).unwrap_or(false);
                cells.insert((si as i64 + 1, *r as i64, *c as i64), json!({"content": content, "t": ty, "fmt": fmt, "b": bold}));
            }
        }
    }
    Obs { cells }
}

pub fn replay(path: &str, out_dir: &str, prop_override: &str) -> Result<Value, String> {
    std::fs::create_dir_all(out_dir).map_err(|e| e.to_string())?;
    let f = std::fs::File::open(path).map_err(|e| e.to_string())?;
    let mut mism = std::io::BufWriter::new(std::fs::File::create(format!("{}/mismatches.ndjson", out_dir)).map_err(|e| e.to_string())?);
    let locale = ironcalc_base::locale::get_locale("en").map_err(|_| "locale")?;
    let language = ironcalc_base::language::get_language("en").map_err(|_| "language")?;
    let (mut n_beh, mut n_steps, mut n_mism, mut n_checks, mut refused) = (0usize, 0usize, 0usize, 0usize, 0usize);
    let mut nontrivial: BTreeSet<String> = Default::default();
    let mut by_prop: BTreeMap<String, usize> = Default::default();
    let mut samples: Vec<Value> = vec![];
    for line in std::io::BufReader::new(f).lines() {
        let line = line.map_err(|e| e.to_string())?;
        let b: Value = match serde_json::from_str(&line) {
            Ok(v) => v,
            Err(_) => continue,
        };
        n_beh += 1;
        // column widths come as descriptors that may span several columns (what an imported file holds):
        // adjacent columns of equal width share one descriptor
        let mut widths: Vec<(i32, f64)> = b["init"]["colw"].as_array().map(|a| a.iter().map(|p| (p[0].as_i64().unwrap_or(1) as i32, p[1].as_f64().unwrap_or(90.0))).collect()).unwrap_or_default();
        widths.sort_by(|x, y| x.0.cmp(&y.0));
        let mut cols: Vec<ironcalc_base::types::Col> = vec![];
        for (c, w) in widths {
            match cols.last_mut() {
                Some(d) if d.max + 1 == c && (d.width - w / ironcalc_base::COLUMN_WIDTH_FACTOR).abs() < 1e-9 => d.max = c,
                _ => cols.push(ironcalc_base::types::Col { min: c, max: c, width: w / ironcalc_base::COLUMN_WIDTH_FACTOR, custom_width: true, hidden: false, style: None }),
            }
        }
        let mut wb = ironcalc_base::Model::new_empty("book", "en", "UTC", "en")?.workbook.clone();
        wb.worksheets[0].cols = cols;
        let mut um = UserModel::from_model(ironcalc_base::Model::from_workbook(wb, "en")?);
        um.new_sheet()?;
        um.set_selected_sheet(0)?;
        // ---- build the initial workbook
        let init = &b["init"];
        let mut defined: Vec<(String, Option<u32>, String)> = vec![];
        for nm in init["names"].as_array().cloned().unwrap_or_default() {
            let f = ref_text(&nm["ref"], 0);
            um.new_defined_name(nm["name"].as_str().unwrap_or("N1"), None, &f)?;
            defined.push((nm["name"].as_str().unwrap_or("N1").to_string(), None, f));
        }
        for cell in init["cells"].as_array().cloned().unwrap_or_default() {
            let (s, r, c) = (cell["s"].as_i64().unwrap_or(1), cell["r"].as_i64().unwrap_or(1) as i32, cell["c"].as_i64().unwrap_or(1) as i32);
            let v = &cell["v"];
            let text = match v["k"].as_str().unwrap_or("") {
                "f" => formula_text(v, s),
                k => lit_text(k, v["id"].as_i64().unwrap_or(0)),
            };
            um.set_user_input((s - 1) as u32, r, c, &text)?;
            if v["b"] == json!(true) {
                let area = ironcalc_base::expressions::types::Area { sheet: (s - 1) as u32, row: r, column: c, width: 1, height: 1 };
                um.update_range_style(&area, "font.b", "true")?;
            }
        }
        for p in init["rowh"].as_array().cloned().unwrap_or_default() {
            um.set_rows_height(0, p[0].as_i64().unwrap_or(1) as i32, p[0].as_i64().unwrap_or(1) as i32, p[1].as_f64().unwrap_or(25.0))?;
        }
        for p in init["links"].as_array().cloned().unwrap_or_default() {
            let link: ironcalc_base::types::Link = serde_json::from_value(json!({"type": "External", "target": format!("https://x.y/{}", p), "tooltip": null})).map_err(|e| e.to_string())?;
            um.set_cell_link(0, p[0].as_i64().unwrap_or(1) as i32, p[1].as_i64().unwrap_or(1) as i32, link, None)?;
        }
        for r in init["rowst"].as_array().cloned().unwrap_or_default() {
            let area = ironcalc_base::expressions::types::Area { sheet: 0, row: r.as_i64().unwrap_or(1) as i32, column: 1, width: 16_384, height: 1 };
            um.update_range_style(&area, "font.i", "true")?;
        }
        for c in init["colst"].as_array().cloned().unwrap_or_default() {
            let area = ironcalc_base::expressions::types::Area { sheet: 0, row: 1, column: c.as_i64().unwrap_or(1) as i32, width: 1, height: 1_048_576 };
            um.update_range_style(&area, "font.i", "true")?;
        }
        let cf0 = &init["cf"];
        let cf_text = |cf: &Value| format!("{}:{}", a1(cf["r1"].as_i64().unwrap_or(1), cf["c1"].as_i64().unwrap_or(1), false, false), a1(cf["r2"].as_i64().unwrap_or(1), cf["c2"].as_i64().unwrap_or(1), false, false));
        let rule = serde_json::from_value(json!({"type": "CellIs", "operator": "GreaterThan", "formula": format!("={}", ref_text(&cf0["fref"], 1)), "formula2": null,
            "format": {"font": {"b": true}, "fill": null, "border": null, "num_fmt": null, "alignment": null}, "stop_if_true": false})).map_err(|e| format!("{e}"))?;
        um.add_conditional_formatting(0, &cf_text(cf0), rule)?;
        um.evaluate();
        // what every literal shows at the start, by id
        let obs0 = observe(&um);
        let mut lits0: BTreeMap<i64, Value> = BTreeMap::new();
        for cell in init["cells"].as_array().cloned().unwrap_or_default() {
            if cell["v"]["k"] != "f" {
                let key = (cell["s"].as_i64().unwrap_or(1), cell["r"].as_i64().unwrap_or(1), cell["c"].as_i64().unwrap_or(1));
                lits0.insert(cell["v"]["id"].as_i64().unwrap_or(0), obs0.cells.get(&key).cloned().unwrap_or(Value::Null));
            }
        }
        // values of the formulas by id, before
        let mut values: BTreeMap<i64, String> = BTreeMap::new();
        for cell in init["cells"].as_array().cloned().unwrap_or_default() {
            if cell["v"]["k"] == "f" {
                let fv = um.get_formatted_cell_value((cell["s"].as_i64().unwrap_or(1) - 1) as u32, cell["r"].as_i64().unwrap_or(1) as i32, cell["c"].as_i64().unwrap_or(1) as i32).unwrap_or_default();
                values.insert(cell["v"]["id"].as_i64().unwrap_or(0), fv);
            }
        }
        let mut program = vec![];
        let steps = b["steps"].as_array().cloned().unwrap_or_default();
        'steps: for (si, st) in steps.iter().enumerate() {
            let a = &st["a"];
            let mut op = a["op"].as_str().unwrap_or("").to_string();
            let res = crate::ops::apply(&mut um, a);
            if prop_override == "C16" {
                op = format!("{}-{}", if a["cut"] == json!(true) { "cut" } else { "copy" }, if a["ts"] == a["s"] { "same-sheet" } else { "other-sheet" });
            }
            program.push(a.clone());
            n_steps += 1;
            if res.tag() != "ok" {
                // the engine refuses an edit the spec allows (e.g. it would split an array): no verdict
                if res.tag() == "panic" {
                    writeln!(mism, "{}", json!({"property": "C12", "why": "panic", "subject": op, "case": {"program": program}, "detail": res.msg()})).ok();
                    n_mism += 1;
                }
                refused += 1;
                break;
            }
            // an insertion that goes wrong does not end the behaviour when the next step deletes the same band:
            // C14 judges the pair by its final state
            let c14_next = op.starts_with("insert") && steps.get(si + 1).map(|nx| nx["a"]["op"].as_str().unwrap_or("") == op.replace("insert", "delete") && nx["a"]["i"] == a["i"] && nx["a"]["k"] == a["k"]).unwrap_or(false);
            let prop_of = |what: &str| -> &'static str {
                if prop_override == "C16" {
                    return "C16";
                }
                match (op.as_str(), what) {
                    (_, "link") | (_, "cf") | ("clear_contents", _) | ("undo", _) | ("copy_paste", _) => "C33",
                    ("insert_rows", _) | ("insert_cols", _) => "C12",
                    ("delete_rows", _) | ("delete_cols", _) => if si > 0 && steps[si - 1]["a"]["op"].as_str().unwrap_or("").starts_with("insert") && steps[si - 1]["a"]["i"] == a["i"] && steps[si - 1]["a"]["k"] == a["k"] { "C14" } else { "C13" },
                    _ => "C15",
                }
            };
            let mut report = |what: &str, why: &str, detail: String| {
                writeln!(mism, "{}", json!({"property": prop_of(what), "why": why, "subject": op, "case": {"program": program, "step": si}, "detail": detail})).ok();
            };
            *by_prop.entry(prop_of("cell").to_string()).or_insert(0) += 1;
            if prop_of("cell") != "C33" {
                *by_prop.entry("C33".to_string()).or_insert(0) += 1;
            }
            let obs = observe(&um);
            // ---- cells: positions and contents
            let mut expected_pos: BTreeSet<(i64, i64, i64)> = BTreeSet::new();
            let mut bad = false;
            for cell in st["cells"].as_array().cloned().unwrap_or_default() {
                let key = (cell["s"].as_i64().unwrap_or(1), cell["r"].as_i64().unwrap_or(1), cell["c"].as_i64().unwrap_or(1));
                expected_pos.insert(key);
                let v = &cell["v"];
                n_checks += 1;
                let got = match obs.cells.get(&key) {
                    Some(g) => g,
                    None => {
                        report("cell", "cell-missing", format!("{:?} should hold {}", key, v));
                        bad = true;
                        break;
                    }
                };
                if got["b"] != v["b"] {
                    report("cell", "cell-style", format!("{:?}: bold want {} got {}", key, v["b"], got["b"]));
                    bad = true;
                    break;
                }
                match v["k"].as_str().unwrap_or("") {
                    "num" => {
                        if got["content"] != json!(format!("{}", v["id"])) || got["t"] != "num" {
                            report("cell", "cell-content", format!("{:?}: want number {} got {}", key, v["id"], got));
                            bad = true;
                            break;
                        }
                    }
                    "lit" => {
                        let want = lits0.get(&v["id"].as_i64().unwrap_or(0)).cloned().unwrap_or(Value::Null);
                        if *got != want {
                            report("cell", "cell-content", format!("{:?}: literal {} ({}) showed {} at the start, now {}", key, v["id"], lit_text("lit", v["id"].as_i64().unwrap_or(0)), want, got));
                            bad = true;
                            break;
                        }
                    }
                    "qtext" => {
                        if got["content"] != json!(format!("'00{}", v["id"])) || got["t"] != "text" {
                            report("cell", "cell-content", format!("{:?}: want quoted text '00{} got {}", key, v["id"], got));
                            bad = true;
                            break;
                        }
                    }
                    _ => {
                        // formula: references through the real parser
                        let text = got["content"].as_str().unwrap_or("").trim_start_matches('=').to_string();
                        let ctx = CellReferenceRC { sheet: format!("Sheet{}", key.0), row: key.1 as i32, column: key.2 as i32 };
                        let mut p = Parser::new(vec!["Sheet1".to_string(), "Sheet2".to_string()], defined.clone(), std::collections::HashMap::new(), locale, language);
                        let node = p.parse(&text, &ctx);
                        let mut refs = vec![];
                        collect_refs(&node, (key.1 as i32, key.2 as i32), &mut refs);
                        let want = v["refs"].as_array().cloned().unwrap_or_default();
                        let ok = refs.len() == want.len() && want.iter().zip(refs.iter()).all(|(w, g)| spec_ref_matches(w, g));
                        // a range the statement leaves open may have become a single #REF! (then the count may differ)
                        let any_open = want.iter().any(|w| w["st"] == "open");
                        if !ok && !any_open {
                            let why = if want.iter().any(|w| w["st"] == "referr") { "reference-to-deleted-cell" } else { "reference-target" };
                            report("cell", why, format!("formula {} at {:?} shows {} ; want refs {}", v["id"], key, got["content"], json!(want)));
                            bad = true;
                            break;
                        }
                        if v["keep"] == json!(true) {
                            n_checks += 1;
                            let before = values.get(&v["id"].as_i64().unwrap_or(0)).cloned().unwrap_or_default();
                            if got["fmt"] != json!(before) {
                                report("cell", "value-changed", format!("formula {} at {:?} ({}) was {} now {}", v["id"], key, got["content"], before, got["fmt"]));
                                bad = true;
                                break;
                            }
                            nontrivial.insert(format!("{}:{}:f{}", op, a["i"], v["id"]));
                        }
                    }
                }
            }
            if bad {
                n_mism += 1;
                if c14_next { continue 'steps; } else { break 'steps; }
            }
            for key in obs.cells.keys() {
                if !expected_pos.contains(key) {
                    report("cell", "extra-cell", format!("{:?} holds {}", key, obs.cells[key]));
                    n_mism += 1;
                    if c14_next { continue 'steps; } else { break 'steps; }
                }
            }
            // ---- defined names are displaced like any reference
            for nm in st["names"].as_array().cloned().unwrap_or_default() {
                n_checks += 1;
                let list = um.get_defined_name_list();
                let got = list.iter().find(|d| d.0 == nm["name"].as_str().unwrap_or("")).map(|d| d.2.clone()).unwrap_or_default();
                let ctx = CellReferenceRC { sheet: "Sheet1".to_string(), row: 1, column: 1 };
                let mut p = Parser::new(vec!["Sheet1".to_string(), "Sheet2".to_string()], vec![], std::collections::HashMap::new(), locale, language);
                let node = p.parse(got.trim_start_matches('='), &ctx);
                let mut refs = vec![];
                collect_refs(&node, (1, 1), &mut refs);
                if nm["ref"]["st"] != "open" && (refs.len() != 1 || !spec_ref_matches(&nm["ref"], &refs[0])) {
                    report("cell", "defined-name-target", format!("name {} is {:?} ; want {}", nm["name"], got, nm["ref"]));
                    n_mism += 1;
                    if c14_next { continue 'steps; } else { break 'steps; }
                }
            }
            // ---- sizes
            let m = um.get_model();
            for (which, list) in [("row", &st["rowh"]), ("col", &st["colw"])] {
                let want: BTreeMap<i64, i64> = list.as_array().map(|a| a.iter().map(|p| (p[0].as_i64().unwrap_or(0), p[1].as_i64().unwrap_or(0))).collect()).unwrap_or_default();
                for idx in 1..=12i64 {
                    n_checks += 1;
                    let got = if which == "row" { m.get_row_height(0, idx as i32).unwrap_or(-1.0) } else { m.get_column_width(0, idx as i32).unwrap_or(-1.0) };
                    let w = want.get(&idx).cloned().unwrap_or(if which == "row" { 25 } else { 90 });
                    if w == 0 {
                        continue; // a freshly inserted row / column: its size is not the statement's business
                    }
                    if (got - w as f64).abs() > 1e-6 {
                        report("size", &format!("{which}-size"), format!("{which} {idx}: got {got} want {w}"));
                        n_mism += 1;
                        if c14_next { continue 'steps; } else { break 'steps; }
                    }
                }
            }
            // ---- row and column styles (italic bands)
            for (which, list) in [("row", &st["rowst"]), ("col", &st["colst"])] {
                let want: BTreeSet<i64> = list.as_array().map(|a| a.iter().filter_map(|x| x.as_i64()).collect()).unwrap_or_default();
                for idx in 1..=14i64 {
                    n_checks += 1;
                    let got = if which == "row" {
                        crate::project::effective_row_style(m, 0, idx as i32).map(|s| s.font.i).unwrap_or(false)
                    } else {
                        m.get_column_style(0, idx as i32).ok().flatten().map(|s| s.font.i).unwrap_or(false)
                    };
                    if got != want.contains(&idx) {
                        report("cell", &format!("{which}-style"), format!("{which} {idx}: italic band style {got}, want {}", want.contains(&idx)));
                        n_mism += 1;
                        if c14_next { continue 'steps; } else { break 'steps; }
                    }
                }
            }
            // ---- links
            let want_links: BTreeSet<(i64, i64)> = st["links"].as_array().map(|a| a.iter().map(|p| (p[0].as_i64().unwrap_or(0), p[1].as_i64().unwrap_or(0))).collect()).unwrap_or_default();
            let got_links: BTreeSet<(i64, i64)> = um.get_links_list(0).unwrap_or_default().iter().map(|l| (l.row as i64, l.column as i64)).collect();
            n_checks += 1;
            if st["linksopen"] != json!(true) && want_links != got_links {
                if prop_of("cell") != "C33" {
                    report("cell", "link-position", format!("got {:?} want {:?}", got_links, want_links));
                }
                report("link", "link-position", format!("got {:?} want {:?}", got_links, want_links));
                n_mism += 1;
                if c14_next { continue 'steps; } else { break 'steps; }
            }
            // ---- conditional format area
            let cf = &st["cf"];
            let got_cf: Vec<String> = um.get_conditional_formatting_list(0).unwrap_or_default().iter().map(|c| c.range.clone()).collect();
            n_checks += 1;
            match cf["st"].as_str().unwrap_or("ok") {
                "ok" => {
                    let want = cf_text(cf);
                    let norm = |s: &str| s.replace('$', "");
                    if got_cf.len() != 1 || norm(&got_cf[0]) != want {
                        report("cf", "cf-area", format!("got {:?} want {}", got_cf, want));
                        n_mism += 1;
                        if c14_next { continue 'steps; } else { break 'steps; }
                    }
                }
                "referr" => {
                    // the whole area was deleted: the rule must be gone or hold no valid area
                    if got_cf.iter().any(|r| !r.contains("#REF") && !r.is_empty()) {
                        report("cf", "cf-area-not-removed", format!("got {:?}", got_cf));
                        n_mism += 1;
                        if c14_next { continue 'steps; } else { break 'steps; }
                    }
                }
                _ => {}
            }
            if cf["fref"]["st"] != "open" {
                n_checks += 1;
                let list = um.get_conditional_formatting_list(0).unwrap_or_default();
                if let Some(first) = list.first() {
                    let rule = serde_json::to_value(&first.cf_rule).unwrap_or(Value::Null);
                    let ftxt = rule["formula"].as_str().unwrap_or("").trim_start_matches('=').to_string();
                    let anchor = crate::structural::anchor_of(&first.range);
                    let ctx = CellReferenceRC { sheet: "Sheet1".to_string(), row: anchor.0, column: anchor.1 };
                    let mut p = Parser::new(vec!["Sheet1".to_string(), "Sheet2".to_string()], vec![], std::collections::HashMap::new(), locale, language);
                    let node = p.parse(&ftxt, &ctx);
                    let mut refs = vec![];
                    collect_refs(&node, anchor, &mut refs);
                    if refs.len() != 1 || !spec_ref_matches(&cf["fref"], &refs[0]) {
                        report("cf", "cf-formula", format!("rule formula {:?} ; want {}", rule["formula"], cf["fref"]));
                        n_mism += 1;
                        if c14_next { continue 'steps; } else { break 'steps; }
                    }
                }
            }
            nontrivial.insert(format!("{}:{}:{}:{}:{}", op, a["i"], a["k"], a["r"], a["c"]));
        }
        if samples.len() < 2 && n_beh % 37 == 5 {
            samples.push(json!({"program": steps.iter().map(|s| s["a"].clone()).collect::<Vec<_>>()}));
        }
    }
    mism.flush().ok();
    Ok(json!({"cases": n_beh, "checks": n_checks, "steps": n_steps, "mismatches": n_mism, "distinct_nontrivial": nontrivial.len(), "samples": samples,
              "no_verdict": refused, "steps_by_property": by_prop}))
}
