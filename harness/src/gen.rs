//! Seeded generator for the operation catalogue (DESIGN.md section 4): every public UserModel
//! mutator with a valid and an invalid argument mode, and a re-entry sensitive content pool.

use ironcalc_base::UserModel;
use rand::rngs::StdRng;
use rand::seq::SliceRandom;
use rand::Rng;
use serde_json::{json, Value};

pub const CONTENT: &[&str] = &[
    "1", "42", "-7", "3.25", "1,234", "1,234.5", "10%", "2.5%", "$12", "-$3.5", "12€", "1e3", "1.5E-2",
    "2024-03-15", "15/03/2024", "TRUE", "false", "#N/A", "#DIV/0!", "#VALUE!", "'123", "'=1+1", "'TRUE",
    "hello", "Hello World", "  padded  ", "1e3x", "12 apples", "https://example.com", "bob@example.com",
    "line1\nline2", "", "'", "0", "-0", "1E+20", "123456789012345", "0.1", "café", "=1+1", "=A1+1",
    "=A1*2+B2", "=$A$1+B$2+$C3", "=SUM(A1:B3)", "=SUM(A:A)", "=SUM(1:1)", "=Sheet1!A1+1", "=IF(A1>1,B1,C1)",
    "=A1&\"x\"", "=1/0", "=A1:A3", "=SEQUENCE(A1)", "=SEQUENCE(2,2)", "={1,2;3,4}", "=-A1%", "=(1+2)*3",
    "=2^3^2", "=1-(2-3)", "=SUM(A1:A3)*2", "=B2", "=C3", "=D4+A1", "=AVERAGE(A1:C3)", "=MAX(A1:B2,5)",
    "=IFERROR(1/0,9)", "=LEN(A1)", "=\"a\"\"b\"", "=TRUE", "=AND(A1,TRUE)", "=MyName", "=MyName+1",
    "=LocalName*2", "=Sheet2!B2", "=COUNT(A1:D4)", "=A1=B1", "=1<2", "=CONCAT(A1,B1)", "=ROUND(A1/3,2)",
    "=ABS(-A1)", "=B1+1", "=A2+1", "=NOSUCHFN(1)", "=1+", "=Ghost!A1",
];

pub const NUM_FMTS: &[&str] = &["general", "0.00", "#,##0", "0%", "#,##0.00", "yyyy-mm-dd", "0.0 \"x\"", "$#,##0.00", "0.00E+00", "@"];
pub const COLORS: &[&str] = &["#FF0000", "#00FF00", "#123456", "", "[4, 0.4]"];
pub const BAD_COLORS: &[&str] = &["red", "#12", "#GGGGGG", "12345678"];
pub const SHEET_NAMES: &[&str] = &["Data", "My Sheet", "Q1", "A1", "TRUE", "R1C1", "It's", "2024", "sheet1", "Ünï", "x.y", "Sum"];
pub const BAD_SHEET_NAMES: &[&str] = &["", "a/b", "x:y", "[z]", "q?", "star*", "back\\slash", "ThisSheetNameIsWayTooLongForExcelToAccept"];
pub const LOCALES: &[&str] = &["en", "en-GB", "es", "fr", "de", "it"];
pub const LANGS: &[&str] = &["en", "es", "fr", "de", "it"];
pub const TZS: &[&str] = &["UTC", "Europe/Berlin", "America/New_York", "Asia/Tokyo"];
pub const STYLE_PATHS: &[(&str, &[&str])] = &[
    ("font.b", &["true", "false"]),
    ("font.i", &["true", "false"]),
    ("font.u", &["true", "false"]),
    ("font.strike", &["true", "false"]),
    ("font.color", &["#FF0000", "#0000FF", ""]),
    ("font.size", &["8", "14", "20"]),
    ("font.size_delta", &["1", "-1", "2"]),
    ("fill.color", &["#FFFF00", "#00FFFF", ""]),
    ("fill.bg_color", &["#FFFF00", "#ABCDEF"]),
    ("num_fmt", NUM_FMTS),
    ("alignment", &[""]),
    ("alignment.horizontal", &["center", "left", "right", "general", "justify"]),
    ("alignment.vertical", &["top", "center", "bottom"]),
    ("alignment.wrap_text", &["true", "false"]),
];
pub const BAD_STYLE: &[(&str, &str)] = &[
    ("font.b", "maybe"),
    ("font.size", "0"),
    ("font.size", "abc"),
    ("font.size_delta", "-100"),
    ("font.color", "red"),
    ("fill.color", "#12"),
    ("alignment", "x"),
    ("alignment.horizontal", "middle"),
    ("alignment.vertical", "up"),
    ("no.such.path", "1"),
    ("alignment.wrap_text", "yes"),
];

pub struct Gen {
    pub rng: StdRng,
    pub win: i32,          // observation window size
    pub max_sheets: usize, // soft cap
    pub with_lang: bool,
    pub with_nav: bool,
    pub edge: bool, // also act near the last row/column
    /// leave out the operation kinds whose undo/redo/replica behaviour is a recorded known
    /// finding (structural row/column edits, array formulas, clipboard, autofill), so that long
    /// histories of everything else are validated to the end
    pub calm: bool,
}

impl Gen {
    fn pick<'a, T>(&mut self, xs: &'a [T]) -> &'a T {
        xs.choose(&mut self.rng).unwrap()
    }
    fn rc(&mut self) -> (i32, i32) {
        if self.edge && self.rng.gen_bool(0.04) {
            let r = crate::project::LAST_ROW - self.rng.gen_range(0..3);
            let c = crate::project::LAST_COLUMN - self.rng.gen_range(0..3);
            return (r, c);
        }
        (self.rng.gen_range(1..=self.win), self.rng.gen_range(1..=self.win))
    }
    fn sheet(&mut self, um: &UserModel) -> i64 {
        let n = um.get_model().workbook.worksheets.len() as i64;
        self.rng.gen_range(0..n.max(1))
    }
    fn small_area(&mut self, um: &UserModel) -> Value {
        let s = self.sheet(um);
        let (r, c) = self.rc();
        let w = self.rng.gen_range(1..=3);
        let h = self.rng.gen_range(1..=3);
        json!({"s": s, "r": r, "c": c, "w": w, "h": h})
    }
    fn area_kind(&mut self, um: &UserModel) -> Value {
        // cell range, full rows or full columns
        let mut a = self.small_area(um);
        match self.rng.gen_range(0..10) {
            0 => {
                a["c"] = json!(1);
                a["w"] = json!(crate::project::LAST_COLUMN);
                a["h"] = json!(self.rng.gen_range(1..=2));
            }
            1 => {
                a["r"] = json!(1);
                a["h"] = json!(crate::project::LAST_ROW);
                a["w"] = json!(self.rng.gen_range(1..=2));
            }
            _ => {}
        }
        a
    }
    fn merge(a: Value, extra: Value) -> Value {
        let mut m = a.as_object().cloned().unwrap_or_default();
        for (k, v) in extra.as_object().unwrap() {
            m.insert(k.clone(), v.clone());
        }
        Value::Object(m)
    }
    fn style_spec(&mut self) -> Value {
        let mut v = vec![];
        for _ in 0..self.rng.gen_range(1..=3) {
            let (p, vals) = *self.pick(&[
                ("num_fmt", NUM_FMTS),
                ("font.b", &["true"][..]),
                ("font.i", &["true"][..]),
                ("font.sz", &["9", "16"][..]),
                ("font.color", &["#FF0000", "#00AA00"][..]),
                ("fill.color", &["#FFFF00", "#DDDDDD"][..]),
                ("alignment.horizontal", &["center", "right"][..]),
                ("alignment.wrap_text", &["true"][..]),
                ("border.top", &["thin", "medium"][..]),
                ("border.left", &["thick"][..]),
            ]);
            let val = *self.pick(vals);
            v.push(json!([p, val]));
        }
        json!(v)
    }
    fn dxf(&mut self) -> Value {
        json!({"font": {"b": true, "color": "#FF0000"}, "fill": {"color": *self.pick(&["#FFFF00", "#00FF00"])}, "border": null, "num_fmt": null, "alignment": null})
    }
    fn cf_rule(&mut self) -> Value {
        match self.rng.gen_range(0..5) {
            0 => json!({"type": "CellIs", "operator": *self.pick(&["GreaterThan", "LessThan", "Equal"]), "formula": *self.pick(&["5", "=$A$1", "=B2+1", "A1"]), "formula2": null, "format": self.dxf(), "stop_if_true": false}),
            1 => json!({"type": "Formula", "formula": *self.pick(&["=A1>2", "=$B1=\"x\"", "=MOD(ROW(),2)=0", "=Sheet1!$C$3>A1"]), "format": self.dxf(), "stop_if_true": self.rng.gen_bool(0.3)}),
            2 => json!({"type": "DuplicateValues", "format": self.dxf(), "stop_if_true": false}),
            3 => json!({"type": "Blanks", "format": self.dxf(), "stop_if_true": false}),
            _ => json!({"type": "Text", "operator": "Contains", "value": "a", "format": self.dxf(), "stop_if_true": false}),
        }
    }
    fn cf_range(&mut self) -> String {
        (*self.pick(&["A1:B3", "C2", "B2:D5", "A1:A8 C1:C8", "D4:E6", "A:A", "2:3"])).to_string()
    }

    /// A valid (as far as the generator can tell) operation.
    pub fn valid(&mut self, um: &UserModel) -> Value {
        let nsheets = um.get_model().workbook.worksheets.len();
        let names = um.get_defined_name_list();
        let nstyles = um.get_named_style_list();
        let mut k = self.rng.gen_range(0..100);
        if self.calm {
            while matches!(k, 25..=26 | 41..=51 | 84..=91) {
                k = self.rng.gen_range(0..100);
            }
        }
        let s = self.sheet(um);
        let (r, c) = self.rc();
        match k {
            0..=24 => {
                let mut text = *self.pick(CONTENT);
                if self.calm && (text.contains("SEQUENCE") || text == "=A1:A3" || text.starts_with("={")) {
                    text = "=A1+1";
                }
                json!({"op": "input", "s": s, "r": r, "c": c, "text": text})
            }
            25..=26 => {
                let w = self.rng.gen_range(1..=2);
                let h = self.rng.gen_range(1..=2);
                // Array formulas live in rows 7-8, outside every range that the generated formulas read (A1:B2,
                // B1:C1, A1:C3, A1:D4, B1:F6, E5:F6): an array over its own input has no stable value, an array that
                // reads a member of another array is evaluated wrongly once, and a cycle that runs through an array
                // member is detected in some evaluations and not in others (findings C07|..|array-reads-array and
                // C05|..|count-on-cycle, reported by the Recalc family). Any of these would surface here under the
                // signature of whatever operation happens to come next.
                let r = 7 + (r % 2);
                let texts: Vec<&str> = vec!["={1,2;3,4}", "=A1:B2*2", "=SUM(A1:A2)", "=B1:C1+1", "=E5:F6*2"];
                json!({"op": "array", "s": s, "r": r, "c": c, "w": w, "h": h, "text": *self.pick(&texts)})
            }
            27..=29 => Self::merge(self.small_area(um), json!({"op": *self.pick(&["clear_all", "clear_contents", "clear_formatting"])})),
            30..=37 => {
                let (p, vals) = *self.pick(STYLE_PATHS);
                let v = *self.pick(vals);
                Self::merge(self.area_kind(um), json!({"op": "style", "path": p, "value": v}))
            }
            38..=39 => Self::merge(
                self.small_area(um),
                json!({"op": "border", "btype": *self.pick(&["All", "Inner", "Outer", "Top", "Right", "Bottom", "Left", "CenterH", "CenterV", "None"]),
                       "bstyle": *self.pick(&["thin", "medium", "thick", "double", "dotted", "slantdashdot", "mediumdashed", "mediumdashdotdot", "mediumdashdot"]), "color": *self.pick(&["#000000", "#FF0000"])}),
            ),
            40 => Self::merge(self.small_area(um), json!({"op": "paste_styles", "style": self.style_spec(), "sw": self.rng.gen_range(1..=2), "sh": self.rng.gen_range(1..=2)})),
            41..=44 => json!({"op": *self.pick(&["insert_rows", "insert_cols"]), "s": s, "i": self.rng.gen_range(1..=self.win), "k": self.rng.gen_range(1..=2)}),
            45..=48 => json!({"op": *self.pick(&["delete_rows", "delete_cols"]), "s": s, "i": self.rng.gen_range(1..=self.win), "k": self.rng.gen_range(1..=2)}),
            49..=51 => {
                let i = self.rng.gen_range(1..=self.win);
                let kk = self.rng.gen_range(1..=2);
                let mut d = self.rng.gen_range(-3..=3);
                if d == 0 {
                    d = 1
                }
                if i + d < 1 {
                    d = 1
                }
                json!({"op": *self.pick(&["move_rows", "move_cols"]), "s": s, "i": i, "k": kk, "d": d})
            }
            52..=54 => {
                let a = self.rng.gen_range(1..=self.win);
                let b = a + self.rng.gen_range(0..=2);
                let v = *self.pick(&[12.0, 25.0, 40.5, 100.0]);
                json!({"op": *self.pick(&["row_height", "col_width"]), "s": s, "a": a, "b": b, "v": v})
            }
            55..=57 => {
                let a = self.rng.gen_range(1..=self.win);
                let b = a + self.rng.gen_range(0..=2);
                json!({"op": *self.pick(&["rows_hidden", "cols_hidden"]), "s": s, "a": a, "b": b, "v": self.rng.gen_bool(0.6)})
            }
            58 => {
                if nsheets < self.max_sheets {
                    json!({"op": "new_sheet"})
                } else {
                    json!({"op": "del_sheet", "s": s})
                }
            }
            59 => {
                if nsheets < self.max_sheets {
                    json!({"op": "dup_sheet", "s": s})
                } else {
                    json!({"op": "del_sheet", "s": s})
                }
            }
            60 => {
                if nsheets > 1 {
                    json!({"op": "del_sheet", "s": s})
                } else {
                    json!({"op": "new_sheet"})
                }
            }
            61..=62 => json!({"op": "rename_sheet", "s": s, "name": format!("{}{}", *self.pick(SHEET_NAMES), self.rng.gen_range(0..3))}),
            63 => json!({"op": "move_sheet", "s": s, "to": self.sheet(um)}),
            64 => json!({"op": *self.pick(&["hide_sheet", "unhide_sheet"]), "s": s}),
            65 => json!({"op": "sheet_color", "s": s, "color": *self.pick(COLORS)}),
            66 => json!({"op": *self.pick(&["frozen_rows", "frozen_cols"]), "s": s, "n": self.rng.gen_range(0..=3)}),
            67 => json!({"op": "grid", "s": s, "v": self.rng.gen_bool(0.5)}),
            68..=70 => {
                let nm = *self.pick(&["MyName", "LocalName", "Rate", "Tbl", "Inc"]);
                let sc: i64 = if self.rng.gen_bool(0.4) { s } else { -1 };
                let fm = *self.pick(&["=Sheet1!$A$1", "Sheet1!$B$2:$C$3", "=$A$1*2", "=LAMBDA(x,x+1)", "=Sheet1!$A$1+Sheet1!$B$1", "42", "=\"txt\""]);
                json!({"op": "new_name", "name": nm, "scope": sc, "formula": fm})
            }
            71..=72 => {
                if let Some((n, sc, f)) = names.choose(&mut self.rng).cloned() {
                    let new_name = if self.rng.gen_bool(0.5) { format!("{n}X") } else { n.clone() };
                    let new_formula = if self.rng.gen_bool(0.5) { f.clone() } else { "=Sheet1!$D$4".to_string() };
                    let scv: i64 = sc.map(|x| x as i64).unwrap_or(-1);
                    // scope changes in every direction: same / to global / to (another) sheet
                    let nsc: i64 = match self.rng.gen_range(0..4) {
                        0 | 1 => scv,
                        2 => -1,
                        _ => self.sheet(um),
                    };
                    json!({"op": "upd_name", "name": n, "scope": scv, "new_name": new_name, "new_scope": nsc, "formula": new_formula})
                } else {
                    json!({"op": "new_name", "name": "MyName", "scope": -1, "formula": "=Sheet1!$A$1"})
                }
            }
            73 => {
                if let Some((n, sc, _)) = names.choose(&mut self.rng).cloned() {
                    json!({"op": "del_name", "name": n, "scope": sc.map(|x| x as i64).unwrap_or(-1)})
                } else {
                    json!({"op": "new_name", "name": "Rate", "scope": -1, "formula": "=Sheet1!$B$2"})
                }
            }
            74 => json!({"op": "create_nstyle", "name": format!("NS{}", self.rng.gen_range(0..4)), "style": self.style_spec(),
                         "includes": {"number_format": self.rng.gen_bool(0.7), "font": self.rng.gen_bool(0.6), "fill": self.rng.gen_bool(0.5), "border": self.rng.gen_bool(0.7), "alignment": self.rng.gen_bool(0.7), "protection": true}}),
            75 => {
                if let Some(n) = nstyles.iter().filter(|n| n.starts_with("NS")).collect::<Vec<_>>().choose(&mut self.rng) {
                    let nn = if self.rng.gen_bool(0.5) { format!("{n}r") } else { n.to_string() };
                    json!({"op": "upd_nstyle", "name": n, "new_name": nn, "style": self.style_spec(), "includes": {"number_format": true, "font": true, "fill": true, "border": false, "alignment": true, "protection": true}})
                } else {
                    json!({"op": "create_nstyle", "name": "NS0", "style": self.style_spec(), "includes": {}})
                }
            }
            76 => {
                if let Some(n) = nstyles.iter().filter(|n| n.starts_with("NS")).collect::<Vec<_>>().choose(&mut self.rng) {
                    json!({"op": "del_nstyle", "name": n})
                } else {
                    json!({"op": "create_nstyle", "name": "NS1", "style": self.style_spec(), "includes": {}})
                }
            }
            77 => {
                let n = nstyles.choose(&mut self.rng).cloned().unwrap_or("Normal".to_string());
                Self::merge(self.small_area(um), json!({"op": "apply_nstyle", "name": n}))
            }
            78..=79 => json!({"op": "add_cf", "s": s, "range": self.cf_range(), "rule": self.cf_rule()}),
            80 => {
                let n = um.get_conditional_formatting_list(s as u32).map(|l| l.len()).unwrap_or(0);
                if n > 0 {
                    let idx = self.rng.gen_range(0..n);
                    match self.rng.gen_range(0..4) {
                        0 => json!({"op": "del_cf", "s": s, "idx": idx}),
                        1 => json!({"op": "upd_cf", "s": s, "idx": idx, "range": self.cf_range(), "rule": self.cf_rule()}),
                        2 => json!({"op": "raise_cf", "s": s, "idx": idx}),
                        _ => json!({"op": "lower_cf", "s": s, "idx": idx}),
                    }
                } else {
                    json!({"op": "add_cf", "s": s, "range": self.cf_range(), "rule": self.cf_rule()})
                }
            }
            81..=82 => {
                let link = if self.rng.gen_bool(0.6) {
                    json!({"type": "External", "target": *self.pick(&["https://ironcalc.com", "mailto:a@b.c"]), "tooltip": null})
                } else {
                    json!({"type": "Internal", "location": *self.pick(&["Sheet1!A3", "MyName"]), "tooltip": "tip"})
                };
                let label = if self.rng.gen_bool(0.5) { json!("label") } else { Value::Null };
                json!({"op": "set_link", "s": s, "r": r, "c": c, "link": link, "label": label})
            }
            83 => json!({"op": "del_link", "s": s, "r": r, "c": c}),
            84..=88 => {
                let a = self.small_area(um);
                let ts = self.sheet(um);
                let (tr, tc) = self.rc();
                Self::merge(a, json!({"op": "copy_paste", "ts": ts, "tr": tr, "tc": tc, "cut": self.rng.gen_bool(0.5)}))
            }
            89 => Self::merge(self.small_area(um), json!({"op": "paste_csv", "csv": *self.pick(&["1\t2\n3\t4", "a,b", "x\t=A1+1\n'5\t10%", "TRUE\t#N/A"])})),
            90..=91 => {
                let a = self.small_area(um);
                let r0 = a["r"].as_i64().unwrap() as i32;
                let h = a["h"].as_i64().unwrap() as i32;
                let c0 = a["c"].as_i64().unwrap() as i32;
                let w = a["w"].as_i64().unwrap() as i32;
                if self.rng.gen_bool(0.5) {
                    let to = if self.rng.gen_bool(0.8) { r0 + h - 1 + self.rng.gen_range(1..=3) } else { (r0 - self.rng.gen_range(1..=2)).max(1) };
                    Self::merge(a, json!({"op": "autofill_rows", "to": to}))
                } else {
                    let to = if self.rng.gen_bool(0.8) { c0 + w - 1 + self.rng.gen_range(1..=3) } else { (c0 - self.rng.gen_range(1..=2)).max(1) };
                    Self::merge(a, json!({"op": "autofill_cols", "to": to}))
                }
            }
            92 => json!({"op": "set_locale", "v": *self.pick(LOCALES)}),
            93 => json!({"op": "set_tz", "v": *self.pick(TZS)}),
            94 => json!({"op": "set_name", "v": *self.pick(&["book", "Budget 2024", "x"])}),
            95 => json!({"op": "set_theme", "v": *self.pick(&["Office", "Mine"]), "accent1": *self.pick(&["#4472C4", "#112233"])}),
            96 => {
                if self.with_lang {
                    json!({"op": "set_lang", "v": *self.pick(LANGS)})
                } else {
                    json!({"op": "input", "s": s, "r": r, "c": c, "text": *self.pick(CONTENT)})
                }
            }
            _ => {
                if self.with_nav {
                    self.nav(um)
                } else {
                    json!({"op": "input", "s": s, "r": r, "c": c, "text": *self.pick(CONTENT)})
                }
            }
        }
    }

    /// a named style in use gets a new font and number format (what a later style update propagates to
    /// the cells depends on flags that a reload must keep)
    pub fn nstyle_update_probe(&mut self, um: &UserModel) -> Value {
        let names: Vec<String> = um.get_named_style_list().into_iter().filter(|n| n.starts_with("NS")).collect();
        match names.choose(&mut self.rng) {
            Some(n) => json!({"op": "upd_nstyle", "name": n, "new_name": n, "style": [["font.b", "true"], ["font.sz", "16"], ["num_fmt", "0.00"], ["fill.color", "#DDDDDD"]],
                              "includes": {"number_format": true, "font": true, "fill": true, "border": true, "alignment": true, "protection": true}}),
            None => json!({"op": "create_nstyle", "name": "NS2", "style": [["num_fmt", "0.0"]], "includes": {"number_format": true, "font": false, "fill": false, "border": false, "alignment": false, "protection": false}}),
        }
    }

    pub fn nav(&mut self, um: &UserModel) -> Value {
        let s = self.sheet(um);
        let (r, c) = self.rc();
        match self.rng.gen_range(0..12) {
            0 => json!({"op": "sel_sheet", "s": s}),
            1 | 2 => json!({"op": "sel_cell", "r": r, "c": c}),
            3 => {
                // range with the active cell at a corner: select the cell first is the driver's business
                json!({"op": "area_selecting", "r": r, "c": c})
            }
            4 | 5 => json!({"op": "arrow", "d": *self.pick(&["left", "right", "up", "down"])}),
            6 => json!({"op": "page", "d": *self.pick(&["up", "down"])}),
            7 => json!({"op": "expand", "key": *self.pick(&["ArrowLeft", "ArrowRight", "ArrowUp", "ArrowDown"])}),
            8 => json!({"op": "nav_edge", "d": *self.pick(&["left", "right", "up", "down"])}),
            9 => json!({"op": "sel_cell", "r": *self.pick(&[1, crate::project::LAST_ROW]), "c": *self.pick(&[1, crate::project::LAST_COLUMN])}),
            10 => json!({"op": "top_left", "r": r, "c": c}),
            _ => json!({"op": "area_selecting", "r": *self.pick(&[1, 5, crate::project::LAST_ROW]), "c": *self.pick(&[1, 3, crate::project::LAST_COLUMN])}),
        }
    }

    /// An operation with one class of invalid argument (C04).
    pub fn invalid(&mut self, um: &UserModel) -> Value {
        let nsheets = um.get_model().workbook.worksheets.len() as i64;
        let bad_sheet = *self.pick(&[nsheets, nsheets + 5, 99]);
        let s = self.sheet(um);
        let (r, c) = self.rc();
        let bad_r = *self.pick(&[0, -1, crate::project::LAST_ROW + 1]);
        let bad_c = *self.pick(&[0, -3, crate::project::LAST_COLUMN + 1]);
        match self.rng.gen_range(0..44) {
            0 => json!({"op": "input", "s": bad_sheet, "r": r, "c": c, "text": "1"}),
            1 => json!({"op": "input", "s": s, "r": bad_r, "c": c, "text": "1"}),
            2 => json!({"op": "input", "s": s, "r": r, "c": bad_c, "text": "=A1"}),
            3 => json!({"op": "clear_contents", "s": bad_sheet, "r": r, "c": c, "w": 2, "h": 2}),
            4 => json!({"op": "clear_all", "s": bad_sheet, "r": r, "c": c, "w": 1, "h": 1}),
            5 => {
                let (p, v) = *self.pick(BAD_STYLE);
                Self::merge(self.small_area(um), json!({"op": "style", "path": p, "value": v}))
            }
            6 => json!({"op": "style", "s": bad_sheet, "r": r, "c": c, "w": 2, "h": 2, "path": "font.b", "value": "true"}),
            7 => json!({"op": *self.pick(&["insert_rows", "insert_cols", "delete_rows", "delete_cols"]), "s": s, "i": self.rng.gen_range(1..=self.win), "k": *self.pick(&[0, -1, -5])}),
            8 => json!({"op": *self.pick(&["insert_rows", "delete_rows"]), "s": s, "i": bad_r, "k": 1}),
            9 => json!({"op": *self.pick(&["insert_cols", "delete_cols"]), "s": s, "i": bad_c, "k": 1}),
            10 => json!({"op": *self.pick(&["insert_rows", "insert_cols", "delete_rows", "delete_cols"]), "s": bad_sheet, "i": 2, "k": 1}),
            11 => json!({"op": "insert_rows", "s": s, "i": 2, "k": crate::project::LAST_ROW}),
            12 => json!({"op": "insert_cols", "s": s, "i": 2, "k": crate::project::LAST_COLUMN}),
            13 => json!({"op": *self.pick(&["move_rows", "move_cols"]), "s": s, "i": 2, "k": 1, "d": *self.pick(&[-5, 0, crate::project::LAST_ROW])}),
            14 => json!({"op": *self.pick(&["move_rows", "move_cols"]), "s": bad_sheet, "i": 2, "k": 1, "d": 1}),
            15 => json!({"op": *self.pick(&["row_height", "col_width"]), "s": s, "a": 2, "b": 3, "v": *self.pick(&[-1.0, -100.0])}),
            16 => json!({"op": "col_width", "s": s, "a": crate::project::LAST_COLUMN - 1, "b": crate::project::LAST_COLUMN + 2, "v": 50.0}),
            17 => json!({"op": "row_height", "s": s, "a": crate::project::LAST_ROW - 1, "b": crate::project::LAST_ROW + 2, "v": 50.0}),
            18 => json!({"op": *self.pick(&["row_height", "col_width", "rows_hidden", "cols_hidden"]), "s": bad_sheet, "a": 1, "b": 2, "v": 30.0}),
            19 => json!({"op": *self.pick(&["rows_hidden", "cols_hidden"]), "s": s, "a": 0, "b": 2, "v": true}),
            20 => json!({"op": *self.pick(&["dup_sheet", "del_sheet", "hide_sheet", "unhide_sheet"]), "s": bad_sheet}),
            21 => json!({"op": "rename_sheet", "s": s, "name": *self.pick(BAD_SHEET_NAMES)}),
            22 => {
                // duplicate name (case-insensitive) of another sheet
                let other = um.get_model().workbook.worksheets.iter().map(|w| w.get_name()).collect::<Vec<_>>();
                let t = other.choose(&mut self.rng).cloned().unwrap_or("Sheet1".into());
                let idx = other.iter().position(|x| *x == t).unwrap_or(0) as i64;
                let tgt = if nsheets > 1 { (idx + 1) % nsheets } else { bad_sheet };
                json!({"op": "rename_sheet", "s": tgt, "name": t.to_uppercase()})
            }
            23 => json!({"op": "rename_sheet", "s": bad_sheet, "name": "Fine"}),
            24 => json!({"op": "move_sheet", "s": *self.pick(&[bad_sheet, s]), "to": bad_sheet}),
            25 => json!({"op": "sheet_color", "s": *self.pick(&[s, bad_sheet]), "color": *self.pick(BAD_COLORS)}),
            26 => json!({"op": *self.pick(&["frozen_rows", "frozen_cols"]), "s": s, "n": *self.pick(&[-1, -7, crate::project::LAST_ROW + 1])}),
            27 => json!({"op": *self.pick(&["frozen_rows", "frozen_cols", "grid"]), "s": bad_sheet, "n": 1, "v": true}),
            28 => json!({"op": "new_name", "name": *self.pick(&["1bad", "A1", "has space", "", "TRUE", "R1C1"]), "scope": -1, "formula": "=Sheet1!$A$1"}),
            29 => json!({"op": "new_name", "name": "ScopedBad", "scope": bad_sheet, "formula": "=Sheet1!$A$1"}),
            30 => {
                if let Some((n, sc, _)) = um.get_defined_name_list().first().cloned() {
                    json!({"op": "new_name", "name": n.to_lowercase(), "scope": sc.map(|x| x as i64).unwrap_or(-1), "formula": "=1"})
                } else {
                    json!({"op": "del_name", "name": "NoSuchName", "scope": -1})
                }
            }
            31 => json!({"op": "del_name", "name": "NoSuchName", "scope": *self.pick(&[-1, s])}),
            32 => json!({"op": "upd_name", "name": "NoSuchName", "scope": -1, "new_name": "X1x", "new_scope": -1, "formula": "=1"}),
            33 => {
                if let Some((n, sc, f)) = um.get_defined_name_list().first().cloned() {
                    json!({"op": "upd_name", "name": n, "scope": sc.map(|x| x as i64).unwrap_or(-1), "new_name": *self.pick(&["A1", "bad name", ""]), "new_scope": -1, "formula": f})
                } else {
                    json!({"op": "upd_name", "name": "Nope", "scope": 0, "new_name": "Y", "new_scope": -1, "formula": "=1"})
                }
            }
            34 => json!({"op": *self.pick(&["del_nstyle", "apply_nstyle"]), "name": "NoSuchStyle", "s": s, "r": r, "c": c, "w": 1, "h": 1}),
            35 => json!({"op": "create_nstyle", "name": *self.pick(&["Normal", ""]), "style": [], "includes": {}}),
            36 => {
                // rename a custom named style to a name that is already taken (with a formatting change)
                let all = um.get_named_style_list();
                let custom: Vec<&String> = all.iter().filter(|n| n.starts_with("NS")).collect();
                if let Some(n) = custom.choose(&mut self.rng) {
                    let taken: Vec<&String> = all.iter().filter(|x| x != n).collect();
                    let t = taken.choose(&mut self.rng).map(|x| x.to_string()).unwrap_or("Normal".to_string());
                    json!({"op": "upd_nstyle", "name": n, "new_name": t, "style": self.style_spec(), "includes": {"number_format": true, "font": true, "fill": true, "border": true, "alignment": true, "protection": true}})
                } else {
                    json!({"op": "upd_nstyle", "name": "NoSuchStyle", "new_name": "Z", "style": [], "includes": {}})
                }
            }
            37 => json!({"op": "add_cf", "s": *self.pick(&[s, bad_sheet]), "range": *self.pick(&["", "A0", "ZZZZ1", "A1:", "Sheet1!A1"]), "rule": self.cf_rule()}),
            38 => json!({"op": *self.pick(&["del_cf", "raise_cf", "lower_cf"]), "s": s, "idx": 77}),
            39 => json!({"op": "set_link", "s": *self.pick(&[bad_sheet, s]), "r": bad_r, "c": c, "link": {"type": "External", "target": "https://x.y", "tooltip": null}, "label": null}),
            40 => json!({"op": "set_locale", "v": *self.pick(&["xx", "", "en-US-POSIX", "EN"])}),
            41 => json!({"op": "set_tz", "v": *self.pick(&["Nowhere/Land", "", "utc+25"])}),
            42 => json!({"op": "array", "s": s, "r": r, "c": c, "w": *self.pick(&[0, -1]), "h": 1, "text": "=A1:B2"}),
            _ => json!({"op": *self.pick(&["autofill_rows", "autofill_cols"]), "s": s, "r": r, "c": c, "w": 1, "h": 1, "to": *self.pick(&[0, -4, crate::project::LAST_ROW + 5])}),
        }
    }
}
