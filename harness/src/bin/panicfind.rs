use ironcalc_base::{Function, Model};
fn main() {
    std::panic::set_hook(Box::new(|_| {}));
    let language = ironcalc_base::language::get_language("en").unwrap();
    let args: Vec<String> = std::env::args().skip(1).collect();
    for f in Function::into_iter() {
        let name = f.to_localized_name(language);
        if ["FACT","FACTDOUBLE","REPT","BESSELJ","BESSELK","COMBIN","COMBINA","MULTINOMIAL","PERMUT"].contains(&name.as_str()) { continue; }
        for a in &args {
            let text = format!("={}({})", name, a);
            let t2 = text.clone();
            let r = std::panic::catch_unwind(move || {
                let mut m = Model::new_empty("b", "en", "UTC", "en").unwrap();
                let _ = m.set_user_input(0, 1, 1, t2);
                m.evaluate();
            });
            if r.is_err() { println!("PANIC {}", text); }
        }
    }
}
