//! C05 / C07 / C31: behaviours of Recalc.tla (editing histories of a small workbook with the
//! value every cell must show after each edit) replayed on UserModel.  After every step all
//! cell values and the spill structure are compared with the spec state; at the end of each
//! behaviour the final workbook is rebuilt from scratch in other input orders, with evaluation
//! paused until the end, with a reload in between and evaluated twice, and all the variants
//! must show the same values.

use crate::cases::Report;
use ironcalc_base::cell::CellValue;
use ironcalc_base::expressions::types::Area;
use ironcalc_base::UserModel;
use serde_json::{json, Value};
use std::io::BufRead;

fn pos(n: i64, c: i64) -> (u32, i32, i32) {
    if c <= n {
        (0, c as i32, 1)
    } else if c == n + 1 {
        (1, 1, 1)
    } else {
        (0, 1, (c - n) as i32) // B1, C1
    }
}
fn addr(n: i64, host: i64, a: i64) -> String {
    let host_sheet = pos(n, host).0;
    let (s, r, col) = pos(n, a);
    let letter = ["A", "B", "C"][(col - 1) as usize];
    if s == host_sheet {
        format!("{letter}{r}")
    } else {
        format!("Sheet{}!{letter}{r}", s + 1)
    }
}
fn text(n: i64, host: i64, x: &Value) -> Option<String> {
    let (a, b, c) = (x["a"].as_i64().unwrap_or(0), x["b"].as_i64().unwrap_or(0), x["c"].as_i64().unwrap_or(0));
    Some(match x["k"].as_str().unwrap_or("") {
        "empty" => return None,
        "num" => format!("{}", x["v"]),
        "ref" => format!("={}", addr(n, host, a)),
        "add" => format!("={}+{}", addr(n, host, a), addr(n, host, b)),
        "sum" => format!("=SUM(Sheet1!A1:A{n})"),
        "count" => format!("=COUNT(Sheet1!A1:A{n})"),
        "if" => format!("=IF({}>0,{},{})", addr(n, host, c), addr(n, host, a), addr(n, host, b)),
        "seq" => format!("=SEQUENCE({})", addr(n, host, a)),
        "seqh" => format!("=SEQUENCE(1,{})", addr(n, host, a)),
        other => format!("?{other}"),
    })
}
fn set(um: &mut UserModel, n: i64, c: i64, x: &Value) -> Result<(), String> {
    let (s, r, col) = pos(n, c);
    match text(n, c, x) {
        Some(t) => um.set_user_input(s, r, col, &t),
        None => um.range_clear_contents(&Area { sheet: s, row: r, column: col, width: 1, height: 1 }),
    }
}

/// what a cell shows: ["n", number] / ["e", "#CIRC!"] / ["empty"] / ["s", text]
fn shown(um: &UserModel, n: i64, c: i64) -> Value {
    let (s, r, col) = pos(n, c);
    let m = um.get_model();
    let ty = m.get_cell_type(s, r, col).map(|t| crate::project::cell_type_name(&t)).unwrap_or("?");
    match m.get_cell_value_by_index(s, r, col).unwrap_or(CellValue::None) {
        CellValue::Number(x) => json!(["n", x]),
        CellValue::String(t) if ty == "err" => json!(["e", t]),
        CellValue::String(t) if t.is_empty() => json!(["empty"]),
        CellValue::String(t) => json!(["s", t]),
        CellValue::Boolean(b) => json!(["b", b]),
        CellValue::None => json!(["empty"]),
    }
}
fn owner(um: &UserModel, n: i64, c: i64) -> i64 {
    let (s, r, col) = pos(n, c);
    match um.get_cell_array_structure(s, r, col) {
        Ok(v) => {
            let j = serde_json::to_value(v).unwrap_or(Value::Null);
            if let Some(d) = j.get("DynamicChild") {
                d[0].as_i64().unwrap_or(-1)
            } else {
                0
            }
        }
        Err(_) => -2, // a cell the engine itself cannot classify
    }
}
fn matches(want: &Value, got: &Value) -> Option<bool> {
    match want["t"].as_str().unwrap_or("") {
        "n" => Some(got[0] == "n" && (got[1].as_f64().unwrap_or(f64::NAN) - want["n"].as_f64().unwrap_or(0.0)).abs() < 1e-9),
        "empty" => Some(got[0] == "empty"),
        _ => match want["e"].as_str().unwrap_or("") {
            "NOV" => None,
            "CIRC" => Some(got[0] == "e" && got[1] == "#CIRC!"),
            "SPILL" => Some(got[0] == "e" && got[1] == "#SPILL!"),
            _ => Some(got[0] == "e" && got[1] != "#CIRC!" && got[1] != "#SPILL!"),
        },
    }
}

fn fresh() -> Result<UserModel<'static>, String> {
    let mut um = UserModel::new_empty("b", "en", "UTC", "en")?;
    um.new_sheet()?;
    Ok(um)
}

pub fn run(path: &str, out_dir: &str, n: i64) -> Result<Value, String> {
    let mut rep = Report::new(out_dir)?;
    let f = std::fs::File::open(path).map_err(|e| e.to_string())?;
    let cells: Vec<i64> = (1..=n + 3).collect();
    let mut variants_run = 0usize;
    for line in std::io::BufReader::new(f).lines() {
        let line = line.map_err(|e| e.to_string())?;
        let b: Value = match serde_json::from_str(&line) {
            Ok(v) => v,
            Err(_) => continue,
        };
        let steps = match b.as_array() {
            Some(s) => s.clone(),
            None => continue,
        };
        rep.n_cases += 1;
        let mut um = fresh()?;
        let mut content: std::collections::BTreeMap<i64, Value> = Default::default();
        let mut program = vec![];
        let mut ok_so_far = true;
        for st in &steps {
            let c = st["c"].as_i64().unwrap_or(1);
            let txt = text(n, c, &st["x"]).unwrap_or_else(|| "(clear)".to_string());
            let (ps, pr, pc) = pos(n, c);
            let cell_name = format!("Sheet{}!{}{}", ps + 1, ["A", "B", "C"][(pc - 1) as usize], pr);
            program.push(json!({"cell": cell_name, "text": txt}));
            content.insert(c, st["x"].clone());
            let kind = st["x"]["k"].as_str().unwrap_or("").to_string();
            if let Err(e) = set(&mut um, n, c, &st["x"]) {
                rep.mismatch("C05", "input-rejected", &kind, json!({"program": program}), e);
                ok_so_far = false;
                break;
            }
            // ---- C05 / C31: every cell against the spec state
            let mut step_mism: Vec<(i64, &str, String, String)> = vec![];
            let mut own_mism: Vec<(i64, i64, String)> = vec![];
            for &d in &cells {
                rep.n_checks += 1;
                let want = &st["shown"][(d - 1) as usize];
                let got = shown(&um, n, d);
                match matches(want, &got) {
                    None => rep.no_verdict += 1,
                    Some(true) => {
                        rep.nontrivial.insert(format!("{}:{}", kind, want["t"].as_str().unwrap_or("") .to_string() + want["e"].as_str().unwrap_or("")));
                    }
                    Some(false) => {
                        // a wrong value in a spill area or of a spill anchor is C31's business, any other C05's
                        let spill = st["owner"][(d - 1) as usize].as_i64().unwrap_or(0) != 0 || want["e"] == "SPILL" || got[1] == "#SPILL!" || content.get(&d).map(|x| x["k"] == "seq" || x["k"] == "seqh").unwrap_or(false) || owner(&um, n, d) != 0;
                        let prop = if spill { "C31" } else { "C05" };
                        let why = format!("want-{}{}-got-{}", want["t"].as_str().unwrap_or(""), want["e"].as_str().unwrap_or(""), if got[0] == "e" { got[1].as_str().unwrap_or("").to_string() } else { got[0].as_str().unwrap_or("").to_string() });
                        step_mism.push((d, prop, why, format!("cell {d} shows {got}, the specification demands {want}")));
                        ok_so_far = false;
                    }
                }
                // spill structure
                let wo = st["owner"][(d - 1) as usize].as_i64().unwrap_or(0);
                if want["e"] != "NOV" {
                    let go = owner(&um, n, d);
                    if go != wo {
                        own_mism.push((d, wo, format!("cell {d}: spill owner row {go}, the specification demands {wo}")));
                        ok_so_far = false;
                    }
                }
            }
            // a COUNT on a cycle that shows a number instead of #CIRC! is one root cause: the cells that read it
            // differ as a consequence and are not reported separately
            // values that are wrong only until the next evaluation: a formula evaluated before the spill it reads
            // existed (the spill cell is created later in the same pass); one class, whatever the edit was
            if (!step_mism.is_empty() || !own_mism.is_empty()) && !step_mism.iter().any(|m| content.get(&m.0).map(|x| x["k"] == "count").unwrap_or(false)) {
                um.evaluate();
                let healed = step_mism.iter().all(|m| matches(&st["shown"][(m.0 - 1) as usize], &shown(&um, n, m.0)) != Some(false))
                    && own_mism.iter().all(|m| owner(&um, n, m.0) == m.1);
                let reads_spill = st["owner"].as_array().map(|a| a.iter().any(|o| o.as_i64().unwrap_or(0) != 0)).unwrap_or(false);
                if healed && reads_spill {
                    let (cell, text) = step_mism.first().map(|m| (m.0, m.3.clone())).or_else(|| own_mism.first().map(|m| (m.0, m.2.clone()))).unwrap_or((0, String::new()));
                    rep.mismatch("C07", "stale-until-next-evaluation", "formula-reads-new-spill", json!({"program": program, "cell": cell}), format!("{text}; right after one more evaluate()"));
                    break;
                }
            }
            for m in &own_mism {
                rep.mismatch("C31", if m.1 == 0 { "stale-or-extra-spill-cell" } else { "missing-spill-cell" }, &kind, json!({"program": program, "cell": m.0}), m.2.clone());
            }
            if let Some(root) = step_mism.iter().find(|m| content.get(&m.0).map(|x| x["k"] == "count").unwrap_or(false)) {
                rep.mismatch("C05", &root.2, "count-on-cycle", json!({"program": program, "cell": root.0}), root.3.clone());
            } else {
                for m in &step_mism {
                    rep.mismatch(m.1, &m.2, &kind, json!({"program": program, "cell": m.0}), m.3.clone());
                }
            }
            if !ok_so_far {
                break;
            }
        }
        if !ok_so_far {
            continue;
        }
        // ---- C07: the final workbook rebuilt in other ways shows the same values
        // (a workbook whose meaning the specification does not fix - a spill whose height depends on its own
        // spill - has no order-independent meaning to preserve either: no verdict)
        if steps.last().and_then(|st| st["shown"].as_array()).map(|a| a.iter().any(|v| v["e"] == "NOV")).unwrap_or(false) {
            rep.no_verdict += 1;
            continue;
        }
        let reference: Vec<Value> = cells.iter().map(|&d| shown(&um, n, d)).collect();
        let filled: Vec<i64> = content.iter().filter(|(_, x)| x["k"] != "empty").map(|(c, _)| *c).collect();
        let mut orders: Vec<(&str, Vec<i64>)> = vec![("forward", filled.clone()), ("reverse", filled.iter().rev().cloned().collect())];
        if filled.len() > 2 {
            let mut rot = filled.clone();
            rot.rotate_left(1);
            orders.push(("rotated", rot));
        }
        for (name, order) in orders {
            for mode in ["each", "paused", "reload"] {
                variants_run += 1;
                let mut v = fresh()?;
                if mode == "paused" {
                    v.pause_evaluation();
                }
                let mut failed = false;
                for (i, c) in order.iter().enumerate() {
                    if set(&mut v, n, *c, &content[c]).is_err() {
                        failed = true;
                        break;
                    }
                    if mode == "reload" && i == 0 {
                        v = UserModel::from_bytes(&v.to_bytes(), "en")?;
                    }
                }
                if failed {
                    continue;
                }
                if mode == "paused" {
                    v.resume_evaluation();
                }
                v.evaluate();
                let once: Vec<Value> = cells.iter().map(|&d| shown(&v, n, d)).collect();
                v.evaluate();
                let twice: Vec<Value> = cells.iter().map(|&d| shown(&v, n, d)).collect();
                rep.n_checks += 2;
                let final_kinds: Vec<String> = content.values().map(|x| x["k"].as_str().unwrap_or("").to_string()).filter(|k| k != "empty" && k != "num").collect();
                let subject = if final_kinds.iter().any(|k| k == "seq" || k == "seqh") { "with-spill" } else if final_kinds.is_empty() { "plain" } else { "formulas" };
                if once != twice {
                    rep.mismatch("C07", "second-evaluation-differs", subject, json!({"program": program, "order": name, "mode": mode}), format!("{once:?} then {twice:?}"));
                } else if once != reference {
                    rep.mismatch("C07", &format!("order-{name}-{mode}-differs"), subject, json!({"program": program, "order": name, "mode": mode}), format!("history gives {reference:?}, rebuilt gives {once:?}"));
                }
            }
        }
        if rep.samples.len() < 3 && rep.n_cases % 1999 == 0 {
            rep.samples.push(json!({"program": program}));
        }
    }
    // ---- a fixed scenario outside the model: a CSE array that reads a member of another CSE array
    {
        let mut um = fresh()?;
        um.set_user_array_formula(0, 2, 4, 2, 2, "=E5:F6*2")?;
        um.set_user_array_formula(0, 5, 4, 2, 1, "={1,2;3,4}")?;
        let once = um.get_formatted_cell_value(0, 2, 4).unwrap_or_default();
        um.evaluate();
        let twice = um.get_formatted_cell_value(0, 2, 4).unwrap_or_default();
        rep.n_checks += 1;
        if once != twice {
            rep.mismatch("C07", "second-evaluation-differs", "array-reads-array",
                json!({"program": [{"cell": "Sheet1!D2:E3", "text": "{=E5:F6*2}"}, {"cell": "Sheet1!D5:E5", "text": "{={1,2;3,4}}"}, {"evaluate": true}]}),
                format!("D2 shows {once} after the second array is entered and {twice} after one more evaluation (E5 = 2)"));
        }
    }
    let mut out = rep.finish();
    out["variants_rebuilt"] = json!(variants_run);
    Ok(out)
}
