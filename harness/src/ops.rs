//! Action interpreter: one JSON action -> one call (or a fixed short call sequence) of the real
//! public API, under catch_unwind.  The result is "ok" | "err" | "panic".

use ironcalc_base::expressions::types::Area;
use ironcalc_base::types::{Color, Link, Style, StyleIncludes, Theme};
use ironcalc_base::worksheet::NavigationDirection;
use ironcalc_base::{BorderArea, ClipboardData, UserModel};
use serde_json::{json, Value};
use std::panic::{catch_unwind, AssertUnwindSafe};

#[derive(Debug, Clone, PartialEq)]
pub enum Res {
    Ok,
    Err(String),
    Panic(String),
}

impl Res {
    pub fn tag(&self) -> &'static str {
        match self {
            Res::Ok => "ok",
            Res::Err(_) => "err",
            Res::Panic(_) => "panic",
        }
    }
    pub fn msg(&self) -> String {
        match self {
            Res::Ok => String::new(),
            Res::Err(m) | Res::Panic(m) => m.clone(),
        }
    }
}

fn i(v: &Value, k: &str) -> i32 {
    v[k].as_i64().unwrap_or(0) as i32
}
fn u(v: &Value, k: &str) -> u32 {
    // negative sheet numbers cannot be expressed in the API (u32): map to a huge index
    let x = v[k].as_i64().unwrap_or(0);
    if x < 0 {
        u32::MAX - 7
    } else {
        x as u32
    }
}
fn s<'a>(v: &'a Value, k: &str) -> &'a str {
    v[k].as_str().unwrap_or("")
}
fn f(v: &Value, k: &str) -> f64 {
    match &v[k] {
        Value::String(t) => t.parse::<f64>().unwrap_or(0.0),
        x => x.as_f64().unwrap_or(0.0),
    }
}
fn b(v: &Value, k: &str) -> bool {
    v[k].as_bool().unwrap_or(false)
}
fn area(v: &Value) -> Area {
    Area {
        sheet: u(v, "s"),
        row: i(v, "r"),
        column: i(v, "c"),
        width: if v["w"].is_null() { 1 } else { i(v, "w") },
        height: if v["h"].is_null() { 1 } else { i(v, "h") },
    }
}
fn scope(v: &Value, k: &str) -> Option<u32> {
    v[k].as_i64().and_then(|x| if x < 0 { None } else { Some(x as u32) })
}

pub fn style_from(v: &Value) -> Style {
    // A style is given as a list of [path, value] updates over the default style, or as a full
    // serialized Style object.
    if v.is_object() {
        if let Ok(st) = serde_json::from_value::<Style>(v.clone()) {
            return st;
        }
    }
    let mut st = Style::default();
    if let Some(list) = v.as_array() {
        for pv in list {
            let p = pv[0].as_str().unwrap_or("");
            let val = pv[1].as_str().unwrap_or("");
            match p {
                "num_fmt" => st.num_fmt = val.to_string(),
                "font.b" => st.font.b = val == "true",
                "font.i" => st.font.i = val == "true",
                "font.u" => st.font.u = val == "true",
                "font.strike" => st.font.strike = val == "true",
                "font.sz" => st.font.sz = val.parse().unwrap_or(12),
                "font.color" => st.font.color = Color::from_param(val).unwrap_or(Color::None),
                "fill.color" => st.fill.color = Color::from_param(val).unwrap_or(Color::None),
                "quote_prefix" => st.quote_prefix = val == "true",
                "alignment.horizontal" | "alignment.vertical" | "alignment.wrap_text" | "alignment" => {
                    let mut al = st.alignment.clone().unwrap_or_default();
                    match p {
                        "alignment.horizontal" => {
                            al.horizontal = serde_json::from_value(json!(val)).unwrap_or_default()
                        }
                        "alignment.vertical" => {
                            al.vertical = serde_json::from_value(json!(val)).unwrap_or_default()
                        }
                        "alignment.wrap_text" => al.wrap_text = val == "true",
                        _ => {}
                    }
                    st.alignment = Some(al);
                }
                "border.top" | "border.bottom" | "border.left" | "border.right" => {
                    let item = serde_json::from_value(json!({"style": val, "color": "#000000"})).ok();
                    match p {
                        "border.top" => st.border.top = item,
                        "border.bottom" => st.border.bottom = item,
                        "border.left" => st.border.left = item,
                        _ => st.border.right = item,
                    }
                }
                _ => {}
            }
        }
    }
    st
}

fn set_sel(um: &mut UserModel, sheet: u32, r1: i32, c1: i32, r2: i32, c2: i32) -> Result<(), String> {
    um.set_selected_sheet(sheet)?;
    um.set_selected_cell(r1, c1)?;
    um.set_selected_range(r1, c1, r2, c2)
}

/// Executes one action.  `pre-view` restoring is the caller's business.
pub fn apply_inner(um: &mut UserModel, a: &Value) -> Result<(), String> {
    let op = s(a, "op");
    match op {
        "input" => um.set_user_input(u(a, "s"), i(a, "r"), i(a, "c"), s(a, "text")),
        "array" => um.set_user_array_formula(u(a, "s"), i(a, "r"), i(a, "c"), i(a, "w"), i(a, "h"), s(a, "text")),
        "clear_all" => um.range_clear_all(&area(a)),
        "clear_contents" => um.range_clear_contents(&area(a)),
        "clear_formatting" => um.range_clear_formatting(&area(a)),
        "style" => um.update_range_style(&area(a), s(a, "path"), s(a, "value")),
        "border" => {
            let ba: BorderArea = serde_json::from_value(json!({
                "item": {"style": s(a, "bstyle"), "color": s(a, "color")},
                "type": s(a, "btype")
            }))
            .map_err(|e| format!("harness: bad border area {e}"))?;
            um.set_area_with_border(&area(a), &ba)
        }
        "paste_styles" => {
            set_sel(um, u(a, "s"), i(a, "r"), i(a, "c"), i(a, "r") + i(a, "h") - 1, i(a, "c") + i(a, "w") - 1)?;
            let st = style_from(&a["style"]);
            let styles: Vec<Vec<Style>> = (0..i(a, "sh").max(1))
                .map(|_| (0..i(a, "sw").max(1)).map(|_| st.clone()).collect())
                .collect();
            um.on_paste_styles(&styles)
        }
        "insert_rows" => um.insert_rows(u(a, "s"), i(a, "i"), i(a, "k")),
        "insert_cols" => um.insert_columns(u(a, "s"), i(a, "i"), i(a, "k")),
        "delete_rows" => um.delete_rows(u(a, "s"), i(a, "i"), i(a, "k")),
        "delete_cols" => um.delete_columns(u(a, "s"), i(a, "i"), i(a, "k")),
        "move_rows" => um.move_rows_action(u(a, "s"), i(a, "i"), i(a, "k"), i(a, "d")),
        "move_cols" => um.move_columns_action(u(a, "s"), i(a, "i"), i(a, "k"), i(a, "d")),
        "row_height" => um.set_rows_height(u(a, "s"), i(a, "a"), i(a, "b"), f(a, "v")),
        "col_width" => um.set_columns_width(u(a, "s"), i(a, "a"), i(a, "b"), f(a, "v")),
        "rows_hidden" => um.set_rows_hidden(u(a, "s"), i(a, "a"), i(a, "b"), b(a, "v")),
        "cols_hidden" => um.set_columns_hidden(u(a, "s"), i(a, "a"), i(a, "b"), b(a, "v")),
        "new_sheet" => um.new_sheet(),
        "dup_sheet" => um.duplicate_sheet(u(a, "s")),
        "del_sheet" => um.delete_sheet(u(a, "s")),
        "rename_sheet" => um.rename_sheet(u(a, "s"), s(a, "name")),
        "move_sheet" => um.move_sheet(u(a, "s"), u(a, "to")),
        "hide_sheet" => um.hide_sheet(u(a, "s")),
        "unhide_sheet" => um.unhide_sheet(u(a, "s")),
        "sheet_color" => {
            // an invalid colour string cannot be expressed as a Color through from_param; the
            // API takes a Color, so build Rgb directly to exercise validation in the engine.
            let c = match Color::from_param(s(a, "color")) {
                Ok(c) => c,
                Err(_) => Color::Rgb(s(a, "color").to_string()),
            };
            um.set_sheet_color(u(a, "s"), &c)
        }
        "frozen_rows" => um.set_frozen_rows_count(u(a, "s"), i(a, "n")),
        "frozen_cols" => um.set_frozen_columns_count(u(a, "s"), i(a, "n")),
        "grid" => um.set_show_grid_lines(u(a, "s"), b(a, "v")),
        "new_name" => um.new_defined_name(s(a, "name"), scope(a, "scope"), s(a, "formula")),
        "upd_name" => um.update_defined_name(
            s(a, "name"),
            scope(a, "scope"),
            s(a, "new_name"),
            scope(a, "new_scope"),
            s(a, "formula"),
        ),
        "del_name" => um.delete_defined_name(s(a, "name"), scope(a, "scope")),
        "create_nstyle" => {
            let inc: StyleIncludes = serde_json::from_value(a["includes"].clone()).unwrap_or_default();
            um.create_named_style(s(a, "name"), &style_from(&a["style"]), inc)
        }
        "upd_nstyle" => {
            let inc: StyleIncludes = serde_json::from_value(a["includes"].clone()).unwrap_or_default();
            um.update_named_style(s(a, "name"), s(a, "new_name"), &style_from(&a["style"]), inc)
        }
        "del_nstyle" => um.delete_named_style(s(a, "name")),
        "apply_nstyle" => {
            set_sel(um, u(a, "s"), i(a, "r"), i(a, "c"), i(a, "r") + i(a, "h") - 1, i(a, "c") + i(a, "w") - 1)?;
            um.on_apply_named_style(s(a, "name"))
        }
        "add_cf" => {
            let rule = serde_json::from_value(a["rule"].clone()).map_err(|e| format!("harness: bad rule {e}"))?;
            um.add_conditional_formatting(u(a, "s"), s(a, "range"), rule)
        }
        "upd_cf" => {
            let rule = serde_json::from_value(a["rule"].clone()).map_err(|e| format!("harness: bad rule {e}"))?;
            um.update_conditional_formatting(u(a, "s"), u(a, "idx"), s(a, "range"), rule)
        }
        "del_cf" => um.delete_conditional_formatting(u(a, "s"), u(a, "idx")),
        "raise_cf" => um.raise_conditional_formatting_priority(u(a, "s"), u(a, "idx")),
        "lower_cf" => um.lower_conditional_formatting_priority(u(a, "s"), u(a, "idx")),
        "set_link" => {
            let link: Link = serde_json::from_value(a["link"].clone()).map_err(|e| format!("harness: bad link {e}"))?;
            let label = a["label"].as_str();
            um.set_cell_link(u(a, "s"), i(a, "r"), i(a, "c"), link, label)
        }
        "del_link" => um.delete_cell_link(u(a, "s"), i(a, "r"), i(a, "c")),
        "copy_paste" => {
            // source selection, copy, target selection, paste (cut or copy)
            let ss = u(a, "s");
            let (r1, c1) = (i(a, "r"), i(a, "c"));
            let (r2, c2) = (r1 + i(a, "h") - 1, c1 + i(a, "w") - 1);
            set_sel(um, ss, r1, c1, r2, c2)?;
            let clip = um.copy_to_clipboard()?;
            let cv = serde_json::to_value(&clip).map_err(|e| e.to_string())?;
            let data: ClipboardData = serde_json::from_value(cv["data"].clone()).map_err(|e| e.to_string())?;
            let range: (i32, i32, i32, i32) = serde_json::from_value(cv["range"].clone()).map_err(|e| e.to_string())?;
            let ts = u(a, "ts");
            set_sel(um, ts, i(a, "tr"), i(a, "tc"), i(a, "tr"), i(a, "tc"))?;
            um.paste_from_clipboard(ss, range, &data, b(a, "cut"))
        }
        "paste_csv" => um.paste_csv_string(&area(a), s(a, "csv")),
        "autofill_rows" => um.auto_fill_rows(&area(a), i(a, "to")),
        "autofill_cols" => um.auto_fill_columns(&area(a), i(a, "to")),
        "set_locale" => um.set_locale(s(a, "v")),
        "set_tz" => um.set_timezone(s(a, "v")),
        "set_name" => {
            um.set_name(s(a, "v"));
            Ok(())
        }
        "set_theme" => {
            let mut th: Theme = Theme::default();
            th.name = s(a, "v").to_string();
            if let Some(c) = a["accent1"].as_str() {
                th.accent1 = c.to_string();
            }
            um.set_theme(th);
            Ok(())
        }
        "set_lang" => um.set_language(s(a, "v")),
        // selection / navigation (never recorded in history)
        "sel_sheet" => um.set_selected_sheet(u(a, "s")),
        "sel_cell" => um.set_selected_cell(i(a, "r"), i(a, "c")),
        "sel_range" => um.set_selected_range(i(a, "r1"), i(a, "c1"), i(a, "r2"), i(a, "c2")),
        "arrow" => match s(a, "d") {
            "right" => um.on_arrow_right(),
            "left" => um.on_arrow_left(),
            "up" => um.on_arrow_up(),
            _ => um.on_arrow_down(),
        },
        "page" => match s(a, "d") {
            "up" => um.on_page_up(),
            _ => um.on_page_down(),
        },
        "area_selecting" => um.on_area_selecting(i(a, "r"), i(a, "c")),
        "expand" => um.on_expand_selected_range(s(a, "key")),
        "nav_edge" => um.on_navigate_to_edge_in_direction(match s(a, "d") {
            "left" => NavigationDirection::Left,
            "right" => NavigationDirection::Right,
            "up" => NavigationDirection::Up,
            _ => NavigationDirection::Down,
        }),
        "top_left" => um.set_top_left_visible_cell(i(a, "r"), i(a, "c")),
        "window" => {
            um.set_window_width(f(a, "w"));
            um.set_window_height(f(a, "h"));
            Ok(())
        }
        "pause" => {
            um.pause_evaluation();
            Ok(())
        }
        "resume" => {
            um.resume_evaluation();
            Ok(())
        }
        "evaluate" => {
            um.evaluate();
            Ok(())
        }
        "undo" => um.undo(),
        "redo" => um.redo(),
        other => Err(format!("harness: unknown op '{other}'")),
    }
}

pub fn panic_msg(e: Box<dyn std::any::Any + Send>) -> String {
    if let Some(s) = e.downcast_ref::<&str>() {
        s.to_string()
    } else if let Some(s) = e.downcast_ref::<String>() {
        s.clone()
    } else {
        "panic".to_string()
    }
}

pub fn apply(um: &mut UserModel, a: &Value) -> Res {
    match catch_unwind(AssertUnwindSafe(|| apply_inner(um, a))) {
        Ok(Ok(())) => Res::Ok,
        Ok(Err(m)) => Res::Err(m),
        Err(e) => Res::Panic(panic_msg(e)),
    }
}

/// Operation kinds that record history (everything that is not selection / evaluation control
/// / language).  Used by drivers to decide which spec action an event maps to.
pub fn is_view_op(op: &str) -> bool {
    matches!(
        op,
        "sel_sheet" | "sel_cell" | "sel_range" | "arrow" | "page" | "area_selecting" | "expand"
            | "nav_edge" | "top_left" | "window"
    )
}

thread_local! {
    static LAST_PANIC: std::cell::RefCell<String> = std::cell::RefCell::new(String::new());
}
/// source location of the last panic on this thread (recorded by the hook of `quiet_panics`)
pub fn last_panic_location() -> String {
    LAST_PANIC.with(|l| l.borrow().clone())
}

pub fn quiet_panics() {
    if std::env::var("ICVERIF_PANIC_LOCATIONS").is_ok() {
        // one line per panic with its source location (diagnostics)
        std::panic::set_hook(Box::new(|info| {
            if let Some(l) = info.location() {
                eprintln!("PANIC-AT {}:{}", l.file(), l.line());
            }
        }));
    } else {
        std::panic::set_hook(Box::new(|info| {
            if let Some(l) = info.location() {
                let at = format!("{}:{}", l.file().rsplit('/').next().unwrap_or(""), l.line());
                LAST_PANIC.with(|p| *p.borrow_mut() = at);
            }
        }));
    }
}
