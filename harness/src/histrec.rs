//! Drivers for the History family (C01-C04, C26; side traces for C27, C28).
//!  * `record`  : I->S.  Seeded random catalogue histories on the real code, one event per call.
//!  * `replay_behaviours` : S->I.  Behaviours enumerated by TLC from MC_History are instantiated
//!    with concrete catalogue operations and executed; after every action the projection of the
//!    real state is compared with the spec state carried by the behaviour.
//!  * `run_program` : re-executes a recorded program (replay files).
//! No verdict is taken from the recorder itself: traces are validated by TLC.

use crate::gen::Gen;
use crate::project::{self, Interner};
use crate::world::World;
use rand::rngs::StdRng;
use rand::{Rng, SeedableRng};
use serde_json::{json, Value};
use std::collections::BTreeMap;
use std::io::{BufRead, Write};

pub struct RecCfg {
    pub seed: u64,
    pub runs: usize,
    pub steps: usize,
    pub out_dir: String,
    pub with_nav: bool,
    pub with_lang: bool,
    pub edge: bool,
    pub p_invalid: f64,
    pub nav_heavy: bool,
    pub calm: bool,
}

pub struct Sink {
    hist: std::io::BufWriter<std::fs::File>,
    view: std::io::BufWriter<std::fs::File>,
    wf: std::io::BufWriter<std::fs::File>,
    prog: std::io::BufWriter<std::fs::File>,
    pub n_events: usize,
    pub kinds: BTreeMap<String, usize>,
    pub diffkinds: BTreeMap<String, usize>,
    pub results: BTreeMap<String, usize>,
    dir: String,
}

impl Sink {
    pub fn new(dir: &str) -> Result<Sink, String> {
        std::fs::create_dir_all(dir).map_err(|e| e.to_string())?;
        let mk = |n: &str| -> Result<std::io::BufWriter<std::fs::File>, String> {
            Ok(std::io::BufWriter::new(std::fs::File::create(format!("{}/{}", dir, n)).map_err(|e| e.to_string())?))
        };
        Ok(Sink { hist: mk("hist.ndjson")?, view: mk("view.ndjson")?, wf: mk("wf.ndjson")?, prog: mk("prog.ndjson")?,
            n_events: 0, kinds: Default::default(), diffkinds: Default::default(), results: Default::default(), dir: dir.to_string() })
    }
    pub fn reset(&mut self, w: &World, it: &mut Interner, run: usize) -> Result<(), String> {
        let d = w.doc_id(it);
        let ev = json!({"ev": "reset", "kind": "reset", "res": "ok", "doc": d, "hist": [0, 0, 0], "run": run});
        self.write(w, &ev, run, &Value::Null)
    }
    fn write(&mut self, w: &World, ev: &Value, run: usize, act: &Value) -> Result<(), String> {
        writeln!(self.hist, "{}", ev).map_err(|e| e.to_string())?;
        writeln!(self.view, "{}", json!({"ev": ev["ev"], "kind": ev["kind"], "res": ev["res"], "view": project::view(&w.um)})).map_err(|e| e.to_string())?;
        writeln!(self.wf, "{}", json!({"ev": ev["ev"], "kind": ev["kind"], "res": ev["res"], "wf": project::wf(w.um.get_model())})).map_err(|e| e.to_string())?;
        writeln!(self.prog, "{}", json!({"run": run, "ev": ev["ev"], "act": act})).map_err(|e| e.to_string())?;
        self.n_events += 1;
        Ok(())
    }
    /// Executes one action and logs its events; the action is attached to its first event.
    pub fn step(&mut self, w: &mut World, it: &mut Interner, run: usize, act: &Value) -> Result<Vec<Value>, String> {
        let evs = w.step(it, act);
        for (i, ev) in evs.iter().enumerate() {
            if ev["ev"] == "op" {
                *self.kinds.entry(ev["kind"].as_str().unwrap_or("").to_string()).or_default() += 1;
                if let Some(ds) = ev["diffs"].as_array() {
                    for d in ds {
                        *self.diffkinds.entry(d.as_str().unwrap_or("").to_string()).or_default() += 1;
                    }
                }
            }
            *self.results.entry(format!("{}:{}", ev["ev"].as_str().unwrap_or(""), ev["res"].as_str().unwrap_or(""))).or_default() += 1;
            let a = if i == 0 { act.clone() } else { Value::Null };
            self.write(w, ev, run, &a)?;
        }
        Ok(evs)
    }
    pub fn finish(&mut self, it: &Interner) -> Result<(), String> {
        self.hist.flush().ok();
        self.view.flush().ok();
        self.wf.flush().ok();
        self.prog.flush().ok();
        let mut df = std::io::BufWriter::new(std::fs::File::create(format!("{}/docs.ndjson", self.dir)).map_err(|e| e.to_string())?);
        for s in &it.table {
            writeln!(df, "{}", s).map_err(|e| e.to_string())?;
        }
        df.flush().ok();
        Ok(())
    }
    pub fn summary(&self, it: &Interner) -> Value {
        json!({"events": self.n_events, "distinct_docs": it.table.len(), "kinds": self.kinds, "diff_variants": self.diffkinds, "results": self.results})
    }
}

pub fn record(cfg: &RecCfg) -> Result<Value, String> {
    let mut sink = Sink::new(&cfg.out_dir)?;
    let mut it = Interner::default();
    for run in 0..cfg.runs {
        let mut rng = StdRng::seed_from_u64(cfg.seed.wrapping_mul(1_000_003).wrapping_add(run as u64));
        let mut g = Gen {
            rng: StdRng::seed_from_u64(rng.gen()),
            win: if run % 3 == 0 { 5 } else { 8 },
            max_sheets: 4,
            with_lang: cfg.with_lang,
            with_nav: cfg.with_nav,
            edge: cfg.edge,
            calm: cfg.calm,
        };
        let flush_policy = run % 3; // 0: every step, 1: random, 2: only at the end
        let mut w = World::new("en", "en")?;
        sink.reset(&w, &mut it, run)?;
        let mut pattern: Vec<&str> = vec![];
        for _step in 0..cfg.steps {
            let act: String = if let Some(p) = pattern.pop() {
                p.to_string()
            } else {
                let x: f64 = g.rng.gen();
                if x < 0.50 {
                    "valid".into()
                } else if x < 0.50 + cfg.p_invalid {
                    "invalid".into()
                } else if x < 0.78 {
                    "undo".into()
                } else if x < 0.86 {
                    "redo".into()
                } else if x < 0.91 {
                    "flush".into()
                } else if x < 0.97 {
                    "apply".into()
                } else {
                    "reload".into()
                }
            };
            let action = match act.as_str() {
                "valid" => {
                    let a = if cfg.nav_heavy && g.rng.gen_bool(0.5) { g.nav(&w.um) } else { g.valid(&w.um) };
                    json!({"act": "op", "a": a})
                }
                "invalid" => json!({"act": "op", "a": g.invalid(&w.um)}),
                "nstyle_probe" => json!({"act": "op", "a": g.nstyle_update_probe(&w.um)}),
                other => json!({ "act": other }),
            };
            let evs = sink.step(&mut w, &mut it, run, &action)?;
            if act == "valid" && action["a"]["op"] == "apply_nstyle" && evs.first().map(|e| e["res"] == "ok").unwrap_or(false) && g.rng.gen_bool(0.6) {
                // coverage-directed probe: a style in use; reload; update the style
                pattern = vec!["nstyle_probe", "reload"];
                continue;
            }
            if act == "valid" && evs.first().map(|e| e["res"] == "ok").unwrap_or(false) && g.rng.gen_bool(0.25) {
                // coverage-directed probe: op; undo; redo; undo; redo
                pattern = vec!["redo", "undo", "redo", "undo"];
            }
            if flush_policy == 0 || (flush_policy == 1 && g.rng.gen_bool(0.3)) {
                sink.step(&mut w, &mut it, run, &json!({"act": "flush"}))?;
                if flush_policy == 0 || g.rng.gen_bool(0.5) {
                    sink.step(&mut w, &mut it, run, &json!({"act": "apply"}))?;
                }
            }
        }
        // final catch-up
        sink.step(&mut w, &mut it, run, &json!({"act": "flush"}))?;
        while !w.net.is_empty() {
            sink.step(&mut w, &mut it, run, &json!({"act": "apply"}))?;
        }
    }
    sink.finish(&it)?;
    Ok(sink.summary(&it))
}

/// Re-executes a program: {"program": [act, ...]} (one run).  Writes the same trace files.
pub fn run_program(path: &str, out_dir: &str) -> Result<Value, String> {
    let text = std::fs::read_to_string(path).map_err(|e| e.to_string())?;
    let v: Value = serde_json::from_str(&text).map_err(|e| e.to_string())?;
    let mut sink = Sink::new(out_dir)?;
    let mut it = Interner::default();
    let mut w = World::new("en", "en")?;
    sink.reset(&w, &mut it, 0)?;
    for act in v["program"].as_array().cloned().unwrap_or_default() {
        sink.step(&mut w, &mut it, 0, &act)?;
    }
    sink.finish(&it)?;
    Ok(sink.summary(&it))
}

/// S->I: behaviours from MC_History (one JSON array per line: [{a, doc, u, r, q, n, rdoc}, ...]).
pub fn replay_behaviours(path: &str, out_dir: &str, k: usize, seed: u64, limit: usize) -> Result<Value, String> {
    std::fs::create_dir_all(out_dir).map_err(|e| e.to_string())?;
    let f = std::fs::File::open(path).map_err(|e| e.to_string())?;
    let mut mism = std::io::BufWriter::new(std::fs::File::create(format!("{}/mismatches.ndjson", out_dir)).map_err(|e| e.to_string())?);
    let mut n_beh = 0usize;
    let mut n_inst = 0usize;
    let mut n_steps = 0usize;
    let mut n_abandoned = 0usize;
    let mut n_mism = 0usize;
    let mut by_action: BTreeMap<String, usize> = Default::default();
    let mut nontrivial: std::collections::BTreeSet<String> = Default::default();
    let mut samples: Vec<Value> = vec![];
    for (bi, line) in std::io::BufReader::new(f).lines().enumerate() {
        let line = line.map_err(|e| e.to_string())?;
        if line.trim().is_empty() {
            continue;
        }
        if limit > 0 && n_beh >= limit {
            break;
        }
        let beh: Value = serde_json::from_str(&line).map_err(|e| format!("behaviour {bi}: {e}"))?;
        let steps = beh.as_array().cloned().unwrap_or_default();
        n_beh += 1;
        for inst in 0..k {
            n_inst += 1;
            let mut it = Interner::default();
            let mut g = Gen {
                rng: StdRng::seed_from_u64(seed ^ ((bi as u64) << 20) ^ ((inst as u64) << 8) ^ 0x9e3779b97f4a7c15),
                win: 5,
                max_sheets: 3,
                with_lang: false,
                with_nav: false,
                edge: false,
                calm: inst % 2 == 1,
            };
            let mut w = World::new("en", "en")?;
            w.use_shadow = false;
            // a little shared content so that operations have something to act on
            for a in [
                json!({"op": "input", "s": 0, "r": 1, "c": 1, "text": "3"}),
                json!({"op": "input", "s": 0, "r": 2, "c": 1, "text": "=A1*2"}),
                json!({"op": "input", "s": 0, "r": 1, "c": 2, "text": "10%"}),
                json!({"op": "input", "s": 0, "r": 3, "c": 3, "text": "'007"}),
            ] {
                crate::ops::apply(&mut w.um, &a);
            }
            // start from a clean history: reload
            let bytes = w.um.to_bytes();
            let mut w = World::from_um(ironcalc_base::UserModel::from_bytes(&bytes, "en")?)?;
            w.use_shadow = false;
            let mut docmap: BTreeMap<i64, usize> = BTreeMap::new(); // spec doc -> real doc id
            docmap.insert(0, w.doc_id(&mut it));
            let mut program: Vec<Value> = vec![];
            let mut opkinds: Vec<String> = vec![]; // classification mirror: kinds on the undo stack
            let mut redokinds: Vec<String> = vec![];
            let mut queue_kinds: Vec<String> = vec![]; // classification mirror of the outgoing queue
            let mut net_kinds: std::collections::VecDeque<Vec<String>> = Default::default();
            let mut abandoned = false;
            'steps: for (si, st) in steps.iter().enumerate() {
                let name = st["a"].as_str().unwrap_or("");
                *by_action.entry(name.to_string()).or_default() += 1;
                let want_hist = json!([st["u"], st["r"], st["q"]]);
                let mut report = |prop: &str, why: &str, want: Option<usize>, got: usize, it: &Interner, program: &Vec<Value>, undone: &str| {
                    let diff = match want {
                        Some(wd) => {
                            let a: Value = serde_json::from_str(it.get(wd).map(|s| s.as_str()).unwrap_or("null")).unwrap_or(Value::Null);
                            let b: Value = serde_json::from_str(it.get(got).map(|s| s.as_str()).unwrap_or("null")).unwrap_or(Value::Null);
                            project::first_diff(&a, &b, String::new()).unwrap_or_default()
                        }
                        None => String::new(),
                    };
                    json!({"property": prop, "why": why, "behaviour": beh, "step": si, "spec_action": name, "subject": undone,
                           "diff": diff, "program": program})
                };
                match name {
                    "Op" | "Fail" => {
                        let mut tries = 0;
                        loop {
                            tries += 1;
                            if tries > 6 {
                                abandoned = true;
                                break 'steps;
                            }
                            let before = w.doc_id(&mut it);
                            let (bu, br, bq) = w.um.verif_history_depths();
                            let a = if name == "Op" { g.valid(&w.um) } else { g.invalid(&w.um) };
                            let act = json!({"act": "op", "a": a});
                            let evs = w.step(&mut it, &act);
                            program.push(act.clone());
                            n_steps += 1;
                            let ev = &evs[0];
                            let after = ev["doc"].as_u64().unwrap_or(0) as usize;
                            let (au, ar, aq) = w.um.verif_history_depths();
                            let recorded = (au, ar, aq) == (bu + 1, 0, bq + 1);
                            let unchanged = (au, ar, aq) == (bu, br, bq) && after == before;
                            let kind = ev["kind"].as_str().unwrap_or("").to_string();
                            if ev["res"] == "panic" {
                                writeln!(mism, "{}", report("PANIC", ev["msg"].as_str().unwrap_or(""), None, after, &it, &program, &kind)).ok();
                                n_mism += 1;
                                abandoned = true;
                                break 'steps;
                            }
                            if ev["res"] == "err" {
                                if !unchanged {
                                    let why = if recorded { "fail-pushed" } else if after != before { "fail-changed" } else { "fail-history" };
                                    writeln!(mism, "{}", report("C04", why, Some(before), after, &it, &program, &kind)).ok();
                                    n_mism += 1;
                                    abandoned = true;
                                    break 'steps;
                                }
                                if name == "Fail" {
                                    nontrivial.insert(format!("Fail:{kind}"));
                                    break;
                                }
                                continue; // a stuttering Fail step inside an Op slot
                            }
                            // ok
                            if recorded {
                                if name == "Op" {
                                    docmap.insert(st["doc"].as_i64().unwrap_or(-1), after);
                                    opkinds.push(kind.clone());
                                    queue_kinds.push(kind.clone());
                                    redokinds.clear();
                                    if json!([au, ar, aq]) != want_hist {
                                        writeln!(mism, "{}", report("C02", "op-depths", None, after, &it, &program, &kind)).ok();
                                        n_mism += 1;
                                        abandoned = true;
                                        break 'steps;
                                    }
                                    break;
                                } else {
                                    // the engine accepted what the generator thought invalid: the
                                    // behaviour cannot be followed any more (guard mismatch, no verdict)
                                    abandoned = true;
                                    break 'steps;
                                }
                            }
                            if unchanged {
                                continue; // stuttering NoOp
                            }
                            let why = if au == bu + 1 && ar != 0 { "redo-not-cleared" } else { "op-unrecorded" };
                            writeln!(mism, "{}", report(if au == bu + 1 { "C02" } else { "C01" }, why, Some(before), after, &it, &program, &kind)).ok();
                            n_mism += 1;
                            abandoned = true;
                            break 'steps;
                        }
                    }
                    "Undo" | "Redo" | "UndoEmpty" | "RedoEmpty" => {
                        let k2 = if name.starts_with("Undo") { "undo" } else { "redo" };
                        let act = json!({ "act": k2 });
                        let evs = w.step(&mut it, &act);
                        program.push(act);
                        n_steps += 1;
                        let ev = &evs[0];
                        let got = ev["doc"].as_u64().unwrap_or(0) as usize;
                        let want = docmap.get(&st["doc"].as_i64().unwrap_or(-1)).cloned();
                        let prop = if k2 == "undo" { "C01" } else { "C02" };
                        let subject = if name == "Undo" { opkinds.last().cloned().unwrap_or_default() } else if name == "Redo" { redokinds.last().cloned().unwrap_or_default() } else { String::new() };
                        if ev["res"] != "ok" || ev["hist"] != want_hist {
                            writeln!(mism, "{}", report(prop, &format!("{k2}-failed"), want, got, &it, &program, &subject)).ok();
                            n_mism += 1;
                            abandoned = true;
                            break 'steps;
                        }
                        if name == "Undo" {
                            if let Some(kd) = opkinds.pop() {
                                queue_kinds.push(format!("undo:{kd}"));
                                redokinds.push(kd);
                            }
                        } else if name == "Redo" {
                            if let Some(kd) = redokinds.pop() {
                                queue_kinds.push(format!("redo:{kd}"));
                                opkinds.push(kd);
                            }
                        }
                        if Some(got) != want {
                            let why = if k2 == "undo" { "undo-restore" } else { "redo-reapply" };
                            writeln!(mism, "{}", report(prop, why, want, got, &it, &program, &subject)).ok();
                            n_mism += 1;
                            abandoned = true;
                            break 'steps;
                        }
                        if name == "Undo" || name == "Redo" {
                            nontrivial.insert(format!("{name}:{subject}"));
                        }
                    }
                    "Flush" => {
                        let act = json!({"act": "flush"});
                        let evs = w.step(&mut it, &act);
                        program.push(act);
                        n_steps += 1;
                        net_kinds.push_back(std::mem::take(&mut queue_kinds));
                        if evs[0]["hist"] != want_hist {
                            writeln!(mism, "{}", report("C03", "flush-broken", None, 0, &it, &program, "")).ok();
                            n_mism += 1;
                            abandoned = true;
                            break 'steps;
                        }
                    }
                    "Apply" => {
                        let act = json!({"act": "apply"});
                        let evs = w.step(&mut it, &act);
                        program.push(act);
                        n_steps += 1;
                        let ev = &evs[0];
                        let got = ev["rdoc"].as_u64().unwrap_or(0) as usize;
                        let want = docmap.get(&st["rdoc"].as_i64().unwrap_or(-1)).cloned();
                        let batch = net_kinds.pop_front().unwrap_or_default();
                        let bsubj = if batch.len() == 1 { batch[0].clone() } else { "batch".to_string() };
                        if ev["res"] != "ok" || Some(got) != want {
                            let why = if ev["res"] != "ok" { "replica-stuck" } else { "replica-diverged" };
                            writeln!(mism, "{}", report("C03", why, want, got, &it, &program, &bsubj)).ok();
                            n_mism += 1;
                            abandoned = true;
                            break 'steps;
                        }
                        if !batch.is_empty() {
                            nontrivial.insert(format!("Apply:{}", bsubj));
                        }
                    }
                    "Reload" => {
                        let act = json!({"act": "reload"});
                        let evs = w.step(&mut it, &act);
                        program.push(act);
                        n_steps += 1;
                        let ev = evs.iter().find(|e| e["ev"] == "reload").cloned().unwrap_or(Value::Null);
                        let got = ev["doc"].as_u64().unwrap_or(0) as usize;
                        let want = docmap.get(&st["doc"].as_i64().unwrap_or(-1)).cloned();
                        if ev["res"] != "ok" || Some(got) != want || ev["hist"] != json!([0, 0, 0]) {
                            writeln!(mism, "{}", report("C26", "reload-changed", want, got, &it, &program, &opkinds.join(","))).ok();
                            n_mism += 1;
                            abandoned = true;
                            break 'steps;
                        }
                        nontrivial.insert(format!("Reload:{}", opkinds.last().cloned().unwrap_or_default()));
                        opkinds.clear();
                        redokinds.clear();
                        queue_kinds.clear();
                        net_kinds.clear();
                    }
                    _ => {}
                }
            }
            if abandoned {
                n_abandoned += 1;
            }
            if samples.len() < 3 && !abandoned {
                samples.push(json!({"behaviour": steps.iter().map(|s| s["a"].clone()).collect::<Vec<_>>(), "program": program}));
            }
        }
    }
    mism.flush().ok();
    Ok(json!({"behaviours": n_beh, "instantiations": n_inst, "steps_executed": n_steps, "abandoned": n_abandoned,
        "mismatches": n_mism, "by_action": by_action, "distinct_nontrivial": nontrivial.len(), "samples": samples}))
}
