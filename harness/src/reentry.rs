//! C18: typing the shown content of a cell back into it is a stuttering step (Reentry.tla,
//! TraceReentry.tla).  Inputs come from TLC (every string over the alphabet up to a length,
//! and indices into VOCAB); each is typed into a fresh cell under every language / locale pair
//! asked for, the four components of the statement are logged as interned ids, the shown
//! content is typed back and the components are logged again.

use crate::project::{cell_type_name, style_json, value_json, Interner};
use ironcalc_base::Model;
use serde_json::{json, Value};
use std::io::{BufRead, Write};

pub const VOCAB: [&str; 172] = [
    // booleans in the five languages, both cases
    "TRUE", "FALSE", "true", "False", "VERDADERO", "FALSO", "VRAI", "FAUX", "WAHR", "FALSCH", "VERO", "falso",
    // errors (English spellings; localized ones are produced by formulas below)
    "#DIV/0!", "#N/A", "#NAME?", "#REF!", "#VALUE!", "#NUM!", "#NULL!", "#SPILL!", "#CALC!", "#CIRC!", "#ERROR!", "#N/IMPL!", "#¡VALOR!", "#WERT!", "#VALEUR!", "#NOMBRE?",
    // dates and times
    "2024-01-15", "2024-02-29", "1900-02-29", "1/2/2024", "15/01/2024", "01/15/2024", "1-Jan-2024", "Jan 5, 2024", "5 January 2024", "12:30", "12:30:45", "1:05 PM", "2024-01-15 12:30", "25:00", "1899-12-31", "9999-12-31", "0000-01-01",
    // percentages, currencies, grouped and scientific numbers
    "50%", "12.5%", "-3%", "%5", "$5", "$1,234.50", "-$5", "($5)", "5 €", "€5", "5€", "1,234.5", "1.234,5", "1,234,567", "1 234", "1e3", "1E+3", "1.5e-7", "1e400", "1e-400", "-0", "+5", ".5", "5.", "00012", "0.1234567890123456789",
    "123456789012345678901", "999999999999999", "9999999999999999", "0.30000000000000004", "1/2", "0 1/2", "(1)", "(1.5)",
    "0.00001", "0.000001234", "-0.00001", "1e-5", "1e-7", "1e-8", "1e15", "1e20", "1e21", "1e22",
    // look-alike strings
    "'123", "'TRUE", "'=A1", "'#N/A", "'2024-01-15", "'50%", "''", "'", "' x", " 12", "12 ", "1 2", "1e", "e1", "--1", "+-1", "1..2", "1,2,3", "TRUE ", " TRUE", "N/A", "#REF", "#", "@", "@A1",
    // formulas
    "=2^(3^2)", "=(2^3)^2", "=2-(3-4)", "=2-(3+4)", "=2/(3/4)", "=2/(3*4)", "=(1+2)*3", "=-(1+2)", "=-2^2", "=(-2)^2", "=2^-2", "=(1+2)%", "=1+2%", "=(1=2)=3", "=1=(2=3)", "=\"a\"&(1+2)", "=(\"a\"&1)+2", "=1+(2&3)", "=-(-1)", "=--1", "=+1", "=1-(-1)", "=(A1:A2)", "=SUM((A1,B1))", "=IF(1,(2),3)", "=1.50", "=1e3+1", "=.5+1", "=1E-5", "=2*(3+4)^2", "=(2*3)^(1/2)", "=A1:A2*2", "=2^3^2",
    "=1+1", "=A1", "=SUM(A1:B2)", "=\"a\"", "=TRUE", "=1/0", "={1,2}", "=", "==", "=+", "=1+", "=NOW(", "=\"unterminated", "=IF(1,2,3)", "=1=1", "=-A1", "=$A$1+A$1", "=Sheet1!A1", "='Sheet1'!A1", "=NoSuchName", "=1%", "=1,5", "=1.5", "=SUM(1;2)", "=SUM(1,2)",
];

const EXTRA: [&str; 6] = ["hello world", "caf\u{e9} \u{4f60}\u{597d}", "line1\nline2", "tab\there", "a<b>&\"c", "https://example.com/x?y=1"];

fn observe(model: &Model, row: i32) -> Value {
    let content = model.get_localized_cell_content(0, row, 1).unwrap_or_else(|e| format!("<err:{e}>"));
    let ty = model.get_cell_type(0, row, 1).map(|t| cell_type_name(&t)).unwrap_or("?");
    let val = model.get_cell_value_by_index(0, row, 1).map(|v| value_json(&v)).unwrap_or(Value::Null);
    let style = model.get_style_for_cell(0, row, 1).map(|s| style_json(&s)).unwrap_or(Value::Null);
    json!({"content": content, "type": ty, "style": style, "value": val})
}

pub fn vocab_size() -> Result<Value, String> {
    Ok(json!({"vocab": VOCAB.len() + EXTRA.len()}))
}

pub fn run(path: &str, out_dir: &str, pairs: &str) -> Result<Value, String> {
    std::fs::create_dir_all(out_dir).map_err(|e| e.to_string())?;
    let mut trace = std::io::BufWriter::new(std::fs::File::create(format!("{}/reentry.ndjson", out_dir)).map_err(|e| e.to_string())?);
    let mut side = std::io::BufWriter::new(std::fs::File::create(format!("{}/detail.ndjson", out_dir)).map_err(|e| e.to_string())?);
    let mut line_no = 0usize; // 1-based index of the last trace line written
    let mut inputs: Vec<String> = vec![];
    for line in std::io::BufReader::new(std::fs::File::open(path).map_err(|e| e.to_string())?).lines() {
        let line = line.map_err(|e| e.to_string())?;
        let c: Value = match serde_json::from_str(&line) {
            Ok(v) => v,
            Err(_) => continue,
        };
        if c["k"] == "vocab" {
            let i = c["v"].as_u64().unwrap_or(1) as usize - 1;
            inputs.push(if i < VOCAB.len() { VOCAB[i].to_string() } else { EXTRA[(i - VOCAB.len()) % EXTRA.len()].to_string() });
        } else {
            inputs.push(c["s"].as_array().map(|a| a.iter().map(|x| x.as_str().unwrap_or("")).collect::<String>()).unwrap_or_default());
        }
    }
    inputs.sort();
    inputs.dedup();
    let mut it = Interner::default();
    let (mut n_cases, mut n_refused, mut n_panics) = (0usize, 0usize, 0usize);
    let mut kinds: std::collections::BTreeSet<String> = Default::default();
    for pair in pairs.split(',') {
        let mut pp = pair.split('/');
        let lang: &'static str = Box::leak(pp.next().unwrap_or("en").to_string().into_boxed_str());
        let locale = pp.next().unwrap_or("en").to_string();
        let mut model = Model::new_empty("b", &locale, "UTC", lang)?;
        let mut row = 0;
        for text in &inputs {
            row += 1;
            if row > 400 {
                model = Model::new_empty("b", &locale, "UTC", lang)?;
                row = 1;
            }
            n_cases += 1;
            let case = json!({"text": text, "lang": lang, "locale": locale});
            let r1 = std::panic::catch_unwind(std::panic::AssertUnwindSafe(|| {
                let r = model.set_user_input(0, row, 1, text.clone());
                model.evaluate();
                r
            }));
            match r1 {
                Ok(Ok(())) => {}
                Ok(Err(e)) => {
                    n_refused += 1;
                    writeln!(trace, "{}", json!({"ev": "refused", "at": "type"})).ok();
                    line_no += 1;
                    let _ = e;
                    continue;
                }
                Err(_) => {
                    n_panics += 1;
                    writeln!(trace, "{}", json!({"ev": "refused", "at": "reenter"})).ok();
                    line_no += 1;
                    writeln!(side, "{}", json!({"l": line_no, "case": case, "err": format!("panic while typing @ {}", crate::ops::last_panic_location())})).ok();
                    model = Model::new_empty("b", &locale, "UTC", lang)?;
                    row = 0;
                    continue;
                }
            }
            let o1 = observe(&model, row);
            let ids = |o: &Value, it: &mut Interner| json!({"content": it.id(&o["content"]), "type": it.id(&o["type"]), "style": it.id(&o["style"]), "value": it.id(&o["value"])});
            writeln!(trace, "{}", json!({"ev": "type", "obs": ids(&o1, &mut it)})).ok();
            line_no += 1;
            kinds.insert(format!("{}:{}", o1["type"].as_str().unwrap_or(""), o1["style"]["num_fmt"].as_str().unwrap_or("")));
            let content = o1["content"].as_str().unwrap_or("").to_string();
            let r2 = std::panic::catch_unwind(std::panic::AssertUnwindSafe(|| {
                let r = model.set_user_input(0, row, 1, content.clone());
                model.evaluate();
                r
            }));
            match r2 {
                Ok(Ok(())) => {}
                Ok(Err(e)) => {
                    writeln!(trace, "{}", json!({"ev": "refused", "at": "reenter"})).ok();
                    line_no += 1;
                    writeln!(side, "{}", json!({"l": line_no, "case": case, "err": e, "shown": content})).ok();
                    continue;
                }
                Err(_) => {
                    n_panics += 1;
                    writeln!(trace, "{}", json!({"ev": "refused", "at": "reenter"})).ok();
                    line_no += 1;
                    writeln!(side, "{}", json!({"l": line_no, "case": case, "err": format!("panic @ {}", crate::ops::last_panic_location()), "shown": content})).ok();
                    model = Model::new_empty("b", &locale, "UTC", lang)?;
                    row = 0;
                    continue;
                }
            }
            let o2 = observe(&model, row);
            let mut diff = serde_json::Map::new();
            for c in ["content", "type", "style", "value"] {
                if o1[c] != o2[c] {
                    let mut ds = vec![];
                    crate::project::all_diffs(&o1[c], &o2[c], String::new(), &mut ds, 6);
                    diff.insert(c.to_string(), json!(ds));
                }
            }
            writeln!(trace, "{}", json!({"ev": "reenter", "obs": ids(&o2, &mut it)})).ok();
            line_no += 1;
            if !diff.is_empty() {
                writeln!(side, "{}", json!({"l": line_no, "case": case, "shown": content, "first": o1, "diff": diff})).ok();
            }
        }
    }
    trace.flush().ok();
    side.flush().ok();
    Ok(json!({"cases": n_cases, "inputs": inputs.len(), "refused_inputs": n_refused, "panics": n_panics, "cell_kinds": kinds.len()}))
}
