//! C25: fault enumeration on xlsx packages.  `vocab` lists, for every base package, its parts
//! with the number of XML elements and attributes; XlsxFaults.tla enumerates fault plans over
//! that vocabulary; `run` applies each plan to the package bytes and imports the result.

use crate::cases::Report;
use ironcalc::export::save_xlsx_to_writer;
use ironcalc::import::load_from_xlsx_bytes;
use ironcalc_base::Model;
use serde_json::{json, Value};
use std::collections::BTreeMap;
use std::io::{BufRead, Cursor, Read, Write};

fn feature_model() -> Result<Vec<u8>, String> {
    let mut um = ironcalc_base::UserModel::new_empty("book", "en", "UTC", "en")?;
    let ops = [
        json!({"op": "input", "s": 0, "r": 1, "c": 1, "text": "3"}),
        json!({"op": "input", "s": 0, "r": 2, "c": 1, "text": "=A1*2+SUM(A1:A1)"}),
        json!({"op": "input", "s": 0, "r": 3, "c": 1, "text": "hello <&> \"world\""}),
        json!({"op": "input", "s": 0, "r": 4, "c": 1, "text": "TRUE"}),
        json!({"op": "input", "s": 0, "r": 5, "c": 1, "text": "=1/0"}),
        json!({"op": "input", "s": 0, "r": 6, "c": 1, "text": "10%"}),
        json!({"op": "input", "s": 0, "r": 7, "c": 1, "text": "2024-03-15"}),
        json!({"op": "input", "s": 0, "r": 1, "c": 3, "text": "=SEQUENCE(2,2)"}),
        json!({"op": "array", "s": 0, "r": 5, "c": 3, "w": 2, "h": 1, "text": "={1,2}*2"}),
        json!({"op": "style", "s": 0, "r": 1, "c": 1, "w": 2, "h": 2, "path": "font.b", "value": "true"}),
        json!({"op": "style", "s": 0, "r": 2, "c": 1, "w": 1, "h": 1, "path": "fill.color", "value": "#FFFF00"}),
        json!({"op": "style", "s": 0, "r": 2, "c": 2, "w": 1, "h": 1, "path": "num_fmt", "value": "0.00"}),
        json!({"op": "border", "s": 0, "r": 1, "c": 1, "w": 2, "h": 2, "btype": "All", "bstyle": "thin", "color": "#000000"}),
        json!({"op": "col_width", "s": 0, "a": 2, "b": 3, "v": 120.0}),
        json!({"op": "row_height", "s": 0, "a": 2, "b": 2, "v": 40.0}),
        json!({"op": "rows_hidden", "s": 0, "a": 9, "b": 9, "v": true}),
        json!({"op": "frozen_rows", "s": 0, "n": 1}),
        json!({"op": "new_sheet"}),
        json!({"op": "rename_sheet", "s": 1, "name": "My Data"}),
        json!({"op": "input", "s": 1, "r": 1, "c": 1, "text": "=Sheet1!A1+1"}),
        json!({"op": "sheet_color", "s": 1, "color": "#FF0000"}),
        json!({"op": "new_name", "name": "Rate", "scope": -1, "formula": "=Sheet1!$A$1"}),
        json!({"op": "new_name", "name": "Loc", "scope": 1, "formula": "='My Data'!$A$1"}),
        json!({"op": "set_link", "s": 0, "r": 8, "c": 1, "link": {"type": "External", "target": "https://ironcalc.com", "tooltip": null}, "label": "site"}),
        json!({"op": "add_cf", "s": 0, "range": "A1:A5", "rule": {"type": "CellIs", "operator": "GreaterThan", "formula": "2", "formula2": null,
               "format": {"font": {"b": true, "color": "#FF0000"}, "fill": null, "border": null, "num_fmt": null, "alignment": null}, "stop_if_true": false}}),
        json!({"op": "new_sheet"}),
        json!({"op": "hide_sheet", "s": 2}),
    ];
    for a in ops.iter() {
        let _ = crate::ops::apply(&mut um, a);
    }
    let w = save_xlsx_to_writer(um.get_model(), Cursor::new(Vec::new())).map_err(|e| format!("{e:?}"))?;
    Ok(w.into_inner())
}

pub fn base_packages() -> Result<Vec<(String, Vec<u8>)>, String> {
    let mut v = vec![("feature-export".to_string(), feature_model()?)];
    for f in ["openpyxl_example.xlsx", "libreoffice_888_example.xlsx", "DynamicArrays.xlsx", "link_test.xlsx", "conditional_formatting/cf_tests.xlsx", "calc_tests/defined_names.xlsx", "calc_tests/simple_cases.xlsx", "custom_theme_colors.xlsx"] {
        if let Ok(b) = std::fs::read(format!("/repo/xlsx/tests/{f}")) {
            v.push((f.to_string(), b));
        }
    }
    Ok(v)
}

fn unzip(bytes: &[u8]) -> Result<Vec<(String, Vec<u8>)>, String> {
    let mut ar = zip::ZipArchive::new(Cursor::new(bytes)).map_err(|e| e.to_string())?;
    let mut out = vec![];
    for i in 0..ar.len() {
        let mut f = ar.by_index(i).map_err(|e| e.to_string())?;
        let mut buf = vec![];
        f.read_to_end(&mut buf).map_err(|e| e.to_string())?;
        out.push((f.name().to_string(), buf));
    }
    Ok(out)
}

fn zip_up(parts: &[(String, Vec<u8>)]) -> Vec<u8> {
    let mut w = zip::ZipWriter::new(Cursor::new(Vec::new()));
    let opt = zip::write::FileOptions::default().compression_method(zip::CompressionMethod::Deflated);
    for (n, b) in parts {
        if w.start_file(n.clone(), opt).is_ok() {
            let _ = w.write_all(b);
        }
    }
    w.finish().map(|c| c.into_inner()).unwrap_or_default()
}

/// (elements: (start, end, is_empty_tag, content_start, content_end)), (attributes: (start, end, value_start, value_end))
type Elem = (usize, usize, usize, usize);
type Attr = (usize, usize, usize, usize);
fn scan_xml(text: &str) -> (Vec<Elem>, Vec<Attr>) {
    let mut elems = vec![];
    let mut attrs = vec![];
    if let Ok(doc) = roxmltree::Document::parse(text) {
        for n in doc.descendants().filter(|n| n.is_element()) {
            let r = n.range();
            // content range: between the end of the start tag and the start of the end tag
            let (cs, ce) = match (n.first_child(), n.last_child()) {
                (Some(f), Some(l)) => (f.range().start, l.range().end),
                _ => (r.end, r.end),
            };
            elems.push((r.start, r.end, cs, ce));
            // attributes: scan the start tag  <name a="v" b='w' ...>
            let bytes = text.as_bytes();
            let mut i = r.start + 1;
            while i < r.end && !bytes[i].is_ascii_whitespace() && bytes[i] != b'>' && bytes[i] != b'/' {
                i += 1;
            }
            loop {
                while i < r.end && bytes[i].is_ascii_whitespace() {
                    i += 1;
                }
                if i >= r.end || bytes[i] == b'>' || bytes[i] == b'/' {
                    break;
                }
                let astart = i;
                while i < r.end && bytes[i] != b'=' && bytes[i] != b'>' {
                    i += 1;
                }
                if i >= r.end || bytes[i] != b'=' {
                    break;
                }
                i += 1;
                while i < r.end && bytes[i].is_ascii_whitespace() {
                    i += 1;
                }
                if i >= r.end || (bytes[i] != b'"' && bytes[i] != b'\'') {
                    break;
                }
                let q = bytes[i];
                let vstart = i + 1;
                i += 1;
                while i < r.end && bytes[i] != q {
                    i += 1;
                }
                if i >= r.end {
                    break;
                }
                attrs.push((astart, i + 1, vstart, i));
                i += 1;
            }
        }
    }
    (elems, attrs)
}

pub fn vocab(out_dir: &str) -> Result<Value, String> {
    std::fs::create_dir_all(out_dir).map_err(|e| e.to_string())?;
    let mut out = std::io::BufWriter::new(std::fs::File::create(format!("{}/vocab.ndjson", out_dir)).map_err(|e| e.to_string())?);
    let pk = base_packages()?;
    let mut n = 0;
    for (pi, (name, bytes)) in pk.iter().enumerate() {
        for (part, b) in unzip(bytes)? {
            let (e, a) = if part.ends_with(".xml") || part.ends_with(".rels") { scan_xml(&String::from_utf8_lossy(&b)) } else { (vec![], vec![]) };
            // index-like attributes: small non-negative integers (sheet ids, style / font / fill indices, counts ...)
            let text = String::from_utf8_lossy(&b).to_string();
            let mut seen_names: std::collections::BTreeMap<String, usize> = Default::default();
            let mut ints: Vec<usize> = vec![];
            for (j, at) in a.iter().enumerate() {
                if let Ok(v) = text[at.2..at.3].parse::<u32>() {
                    if v < 64 {
                        // at most 3 occurrences of the same attribute name per part (cells repeat r= / s= thousands of times)
                        let name = text[at.0..at.2].split('=').next().unwrap_or("").trim().to_string();
                        let c = seen_names.entry(name).or_insert(0);
                        *c += 1;
                        if *c <= 3 {
                            ints.push(j + 1);
                        }
                    }
                }
            }
            writeln!(out, "{}", json!({"pkg": pi + 1, "pkgname": name, "part": part, "elems": e.len(), "attrs": a.len(), "size": b.len(), "ints": ints})).ok();
            n += 1;
        }
    }
    out.flush().ok();
    Ok(json!({"packages": pk.len(), "parts": n}))
}

const GARBLE: [&str; 8] = ["", "-1", "99999999999999999999", "abc", "1.5", "A0:ZZZZ99999999", "a\u{e9}\u{e9}\u{e9}b", "x"];

fn apply_fault(parts: &mut Vec<(String, Vec<u8>)>, f: &Value) {
    let kind = f["k"].as_str().unwrap_or("");
    let pname = f["part"].as_str().unwrap_or("");
    let idx = f["i"].as_u64().unwrap_or(0) as usize;
    let arg = f["x"].as_u64().unwrap_or(0) as usize;
    if kind == "DropPart" {
        parts.retain(|(n, _)| n != pname);
        return;
    }
    if let Some((_, bytes)) = parts.iter_mut().find(|(n, _)| n == pname) {
        match kind {
            "TruncatePart" => {
                let k = bytes.len() * arg / 16;
                bytes.truncate(k);
            }
            "DropElem" | "DupElem" | "EmptyElem" | "DropAttr" | "GarbleAttr" | "BumpAttr" => {
                let text = String::from_utf8_lossy(bytes).to_string();
                let (elems, attrs) = scan_xml(&text);
                let mut t = text.clone();
                match kind {
                    "DropElem" => {
                        if let Some(e) = elems.get(idx.wrapping_sub(1)) {
                            t.replace_range(e.0..e.1, "");
                        }
                    }
                    "DupElem" => {
                        if let Some(e) = elems.get(idx.wrapping_sub(1)) {
                            let copy = text[e.0..e.1].to_string();
                            t.insert_str(e.1, &copy);
                        }
                    }
                    "EmptyElem" => {
                        if let Some(e) = elems.get(idx.wrapping_sub(1)) {
                            if e.3 > e.2 {
                                t.replace_range(e.2..e.3, "");
                            }
                        }
                    }
                    "DropAttr" => {
                        if let Some(a) = attrs.get(idx.wrapping_sub(1)) {
                            t.replace_range(a.0..a.1, "");
                        }
                    }
                    "BumpAttr" => {
                        // an index moved past (or towards) its bound: value + x
                        if let Some(a) = attrs.get(idx.wrapping_sub(1)) {
                            if let Ok(v) = text[a.2..a.3].parse::<u64>() {
                                t.replace_range(a.2..a.3, &format!("{}", v + arg as u64));
                            }
                        }
                    }
                    _ => {
                        if let Some(a) = attrs.get(idx.wrapping_sub(1)) {
                            if a.3 >= a.2 {
                                t.replace_range(a.2..a.3, GARBLE[arg % GARBLE.len()]);
                            }
                        }
                    }
                }
                *bytes = t.into_bytes();
            }
            _ => {}
        }
    }
}

pub fn run(path: &str, out_dir: &str, skip: usize, seed: u64) -> Result<Value, String> {
    use std::sync::atomic::{AtomicU64, Ordering};
    use std::sync::{Arc, Mutex};
    let mut rep = Report::new(out_dir)?;
    let pk = base_packages()?;
    let unzipped: Vec<Vec<(String, Vec<u8>)>> = pk.iter().map(|(_, b)| unzip(b).unwrap_or_default()).collect();
    let started = Arc::new(AtomicU64::new(0));
    let current = Arc::new(Mutex::new(String::new()));
    let (st2, cur2, od) = (started.clone(), current.clone(), out_dir.to_string());
    let t0 = std::time::Instant::now();
    std::thread::spawn(move || loop {
        std::thread::sleep(std::time::Duration::from_millis(250));
        let s = st2.load(Ordering::Relaxed);
        if s > 0 && t0.elapsed().as_millis() as u64 > s + 60000 {
            let c = cur2.lock().map(|g| g.clone()).unwrap_or_default();
            let _ = std::fs::write(format!("{}/TIMEOUT.json", od), c);
            std::process::exit(3);
        }
    });
    let f = std::fs::File::open(path).map_err(|e| e.to_string())?;
    let mut outcomes: BTreeMap<String, usize> = BTreeMap::new();
    let mut idx = 0usize;
    let mut import = |bytes: &[u8], label: &Value, rep: &mut Report, subject: &str, outcomes: &mut BTreeMap<String, usize>| {
        rep.n_checks += 1;
        let r = std::panic::catch_unwind(|| match load_from_xlsx_bytes(bytes, "book", "en", "UTC") {
            Ok(wb) => match Model::from_workbook(wb, "en") {
                Ok(mut m) => {
                    m.evaluate();
                    "ok"
                }
                Err(_) => "err",
            },
            Err(_) => "err",
        });
        match r {
            Ok(o) => *outcomes.entry(o.to_string()).or_default() += 1,
            Err(_) => {
                *outcomes.entry("panic".to_string()).or_default() += 1;
                rep.mismatch("C25", "panic", subject, label.clone(), String::new());
            }
        }
    };
    for line in std::io::BufReader::new(f).lines() {
        let line = line.map_err(|e| e.to_string())?;
        let c: Value = match serde_json::from_str(&line) {
            Ok(v) => v,
            Err(_) => continue,
        };
        idx += 1;
        if idx <= skip {
            continue;
        }
        rep.n_cases += 1;
        if idx % 64 == 1 {
            let _ = std::fs::write(format!("{}/PROGRESS", out_dir), format!("{idx}"));
        }
        let pi = (c["pkg"].as_u64().unwrap_or(1) as usize).saturating_sub(1);
        if pi >= unzipped.len() {
            continue;
        }
        if let Ok(mut g) = current.lock() {
            *g = json!({"case": c, "index": idx}).to_string();
        }
        started.store(t0.elapsed().as_millis() as u64 + 1, Ordering::Relaxed);
        let faults = c["faults"].as_array().cloned().unwrap_or_default();
        let subject: String = faults.iter().map(|f| {
            let part = f["part"].as_str().unwrap_or("");
            let class = if part.contains("sheet") && part.contains("worksheets") { "worksheet" } else if part.contains("styles") { "styles" } else if part.contains("workbook.xml.rels") { "workbook-rels" }
                else if part.contains("workbook") { "workbook" } else if part.contains("sharedStrings") { "sharedStrings" } else if part.contains("theme") { "theme" } else if part.contains("rels") { "rels" }
                else if part.contains("Content_Types") { "content-types" } else if part.contains("table") { "table" } else if part.contains("metadata") { "metadata" } else if part.is_empty() { "package" } else { "other" };
            format!("{}@{}", f["k"].as_str().unwrap_or(""), class)
        }).collect::<Vec<_>>().join("+");
        let mut parts = unzipped[pi].clone();
        let mut pkg_level: Vec<Value> = vec![];
        for ft in &faults {
            match ft["k"].as_str().unwrap_or("") {
                "TruncateZip" | "FlipByte" => pkg_level.push(ft.clone()),
                _ => apply_fault(&mut parts, ft),
            }
        }
        let mut bytes = zip_up(&parts);
        for ft in &pkg_level {
            let x = ft["x"].as_u64().unwrap_or(0) as usize;
            if ft["k"] == "TruncateZip" {
                let k = bytes.len() * x / 16;
                bytes.truncate(k);
            } else if !bytes.is_empty() {
                // flip one byte in the x-th sixteenth of the file (position from the seed)
                let lo = bytes.len() * x.saturating_sub(1) / 16;
                let hi = (bytes.len() * x / 16).max(lo + 1).min(bytes.len());
                let pos = lo + ((seed as usize).wrapping_mul(2654435761) % (hi - lo));
                bytes[pos] ^= 0x5a;
            }
        }
        import(&bytes, &json!({"pkg": pk[pi].0, "faults": faults}), &mut rep, &subject, &mut outcomes);
        rep.nontrivial.insert(subject.clone());
        if rep.samples.len() < 3 && faults.len() == 2 {
            rep.samples.push(json!({"pkg": pk[pi].0, "faults": faults}));
        }
    }
    started.store(0, Ordering::Relaxed);
    let mut v = rep.finish();
    v["outcomes"] = json!(outcomes);
    v["packages"] = json!(pk.iter().map(|p| p.0.clone()).collect::<Vec<_>>());
    Ok(v)
}
