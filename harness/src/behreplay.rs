//! Generic S->I replayer: TLC prints behaviours whose steps carry the harness action and the
//! spec state expected after it; each behaviour is executed on a fresh UserModel and the
//! projection of the real state is compared with the spec state after every step.

use crate::ops::apply;
use crate::project;
use ironcalc_base::UserModel;
use serde_json::{json, Value};
use std::collections::{BTreeMap, BTreeSet};
use std::io::{BufRead, Write};

fn compare_selection(um: &UserModel, exp: &Value) -> Option<String> {
    let v = project::view(um);
    if v["n"] != exp["n"] {
        return Some(format!("sheet-count\tgot {} want {}", v["n"], exp["n"]));
    }
    let sel = v["sheet"].as_i64().unwrap_or(-1);
    let n = v["n"].as_i64().unwrap_or(0);
    if sel < 0 || sel >= n {
        return Some(format!("selected-sheet-missing\tselected {} of {} sheets", sel, n));
    }
    let es = exp["sel"].as_i64().unwrap_or(-1);
    if es >= 0 && es != sel {
        return Some(format!("selected-sheet-differs\tgot {} want {}", sel, es));
    }
    if es < 0 && exp["pick"].as_i64().unwrap_or(-1) != sel {
        // the spec leaves the choice open and TLC enumerates every choice: this behaviour
        // follows another branch than the engine, the branch the engine took is replayed too
        return Some("other-branch\t".to_string());
    }
    let sv = &v["sheets"][sel as usize];
    if exp["cellexact"].as_bool().unwrap_or(false) {
        if sv["row"] != exp["row"] || sv["col"] != exp["col"] {
            return Some(format!("cell-differs\tgot ({},{}) want ({},{})", sv["row"], sv["col"], exp["row"], exp["col"]));
        }
        if sv["range"] != exp["range"] {
            return Some(format!("range-differs\tgot {} want {}", sv["range"], exp["range"]));
        }
    }
    None
}

pub fn replay(family: &str, path: &str, out_dir: &str, limit: usize) -> Result<Value, String> {
    std::fs::create_dir_all(out_dir).map_err(|e| e.to_string())?;
    let f = std::fs::File::open(path).map_err(|e| e.to_string())?;
    let mut mism = std::io::BufWriter::new(std::fs::File::create(format!("{}/mismatches.ndjson", out_dir)).map_err(|e| e.to_string())?);
    let mut view = std::io::BufWriter::new(std::fs::File::create(format!("{}/view.ndjson", out_dir)).map_err(|e| e.to_string())?);
    let mut n_beh = 0usize;
    let mut n_steps = 0usize;
    let mut n_mism = 0usize;
    let mut guard_mismatch = 0usize;
    let mut other_branch = 0usize;
    let mut by_op: BTreeMap<String, usize> = Default::default();
    let mut nontrivial: BTreeSet<String> = Default::default();
    let mut samples: Vec<Value> = vec![];
    for line in std::io::BufReader::new(f).lines() {
        let line = line.map_err(|e| e.to_string())?;
        if line.trim().is_empty() {
            continue;
        }
        if limit > 0 && n_beh >= limit {
            break;
        }
        let beh: Value = serde_json::from_str(&line).map_err(|e| e.to_string())?;
        let steps = beh.as_array().cloned().unwrap_or_default();
        n_beh += 1;
        let mut um = UserModel::new_empty("book", "en", "UTC", "en")?;
        writeln!(view, "{}", json!({"ev": "reset", "kind": "reset", "res": "ok", "view": project::view(&um)})).ok();
        let mut program = vec![];
        for (si, st) in steps.iter().enumerate() {
            let a = &st["a"];
            let op = a["op"].as_str().unwrap_or("").to_string();
            *by_op.entry(op.clone()).or_default() += 1;
            let before = project::view(&um);
            let res = apply(&mut um, a);
            program.push(a.clone());
            n_steps += 1;
            let after = project::view(&um);
            writeln!(view, "{}", json!({"ev": "op", "kind": op, "res": res.tag(), "view": after})).ok();
            // the spec's guards are not verdicts: a step the engine refuses where the spec expects a
            // change (or the reverse) ends this behaviour without a verdict, except for the frame
            // law of rejected targets, which the spec states (nothing changes)
            let expect_unchanged = st["expect_unchanged"].as_bool().unwrap_or(false);
            let _ = expect_unchanged;
            if res.tag() == "panic" {
                writeln!(mism, "{}", json!({"property": "PANIC", "why": "panic", "subject": op, "detail": res.msg(), "step": si, "program": program, "behaviour": beh})).ok();
                n_mism += 1;
                break;
            }
            let cmp = match family {
                "selection" => compare_selection(&um, &st["expect"]),
                _ => None,
            };
            if let Some(d) = cmp {
                if d.starts_with("other-branch") {
                    other_branch += 1;
                    break;
                }
                // a refused call that the spec models as accepted (or vice versa) is a guard
                // mismatch unless the state itself is invalid
                let invalid = d.starts_with("selected-sheet-missing");
                if res.tag() == "err" && !invalid && before == after {
                    guard_mismatch += 1;
                    break;
                }
                let (why, detail) = d.split_once('\t').unwrap_or((&d, ""));
                writeln!(mism, "{}", json!({"property": "C28", "why": why, "subject": op, "detail": detail, "step": si, "program": program, "behaviour": beh})).ok();
                n_mism += 1;
                break;
            }
            if before != after {
                nontrivial.insert(format!("{}:{}", op, steps.iter().take(si).map(|s| s["a"]["op"].as_str().unwrap_or("")).collect::<Vec<_>>().join(">")));
            }
        }
        if samples.len() < 2 {
            samples.push(json!({"behaviour": steps}));
        }
    }
    mism.flush().ok();
    view.flush().ok();
    Ok(json!({"behaviours": n_beh, "steps_executed": n_steps, "mismatches": n_mism, "guard_mismatch": guard_mismatch, "other_branch": other_branch,
              "by_op": by_op, "distinct_nontrivial": nontrivial.len(), "samples": samples}))
}
