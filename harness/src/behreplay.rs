//! Generic S->I replayer: TLC prints behaviours whose steps carry the harness action and the
//! spec state expected after it; each behaviour is executed on a fresh UserModel and the
//! projection of the real state is compared with the spec state after every step.

use crate::ops::apply;
use crate::project;
use ironcalc_base::UserModel;
use serde_json::{json, Value};
use std::collections::{BTreeMap, BTreeSet};
use std::io::{BufRead, Write};

fn compare_selection(um: &UserModel, exp: &Value) -> Option<String> {
    let v = project::view(um);
    if v["n"] != exp["n"] {
        return Some(format!("sheet-count\tgot {} want {}", v["n"], exp["n"]));
    }
    let sel = v["sheet"].as_i64().unwrap_or(-1);
    let n = v["n"].as_i64().unwrap_or(0);
    if sel < 0 || sel >= n {
        return Some(format!("selected-sheet-missing\tselected {} of {} sheets", sel, n));
    }
    let es = exp["sel"].as_i64().unwrap_or(-1);
    if es >= 0 && es != sel {
        return Some(format!("selected-sheet-differs\tgot {} want {}", sel, es));
    }
    if es < 0 && exp["pick"].as_i64().unwrap_or(-1) != sel {
        // the spec leaves the choice open and TLC enumerates every choice: this behaviour
        // follows another branch than the engine, the branch the engine took is replayed too
        return Some("other-branch\t".to_string());
    }
    let sv = &v["sheets"][sel as usize];
    if exp["cellexact"].as_bool().unwrap_or(false) {
        if sv["row"] != exp["row"] || sv["col"] != exp["col"] {
            return Some(format!("cell-differs\tgot ({},{}) want ({},{})", sv["row"], sv["col"], exp["row"], exp["col"]));
        }
        if sv["range"] != exp["range"] {
            return Some(format!("range-differs\tgot {} want {}", sv["range"], exp["range"]));
        }
    }
    None
}

pub fn replay(family: &str, path: &str, out_dir: &str, limit: usize) -> Result<Value, String> {
    std::fs::create_dir_all(out_dir).map_err(|e| e.to_string())?;
    let f = std::fs::File::open(path).map_err(|e| e.to_string())?;
    let mut mism = std::io::BufWriter::new(std::fs::File::create(format!("{}/mismatches.ndjson", out_dir)).map_err(|e| e.to_string())?);
    let mut view = std::io::BufWriter::new(std::fs::File::create(format!("{}/view.ndjson", out_dir)).map_err(|e| e.to_string())?);
    let mut n_beh = 0usize;
    let mut n_steps = 0usize;
    let mut n_mism = 0usize;
    let mut guard_mismatch = 0usize;
    let mut other_branch = 0usize;
    let mut by_op: BTreeMap<String, usize> = Default::default();
    let mut nontrivial: BTreeSet<String> = Default::default();
    let mut samples: Vec<Value> = vec![];
    for line in std::io::BufReader::new(f).lines() {
        let line = line.map_err(|e| e.to_string())?;
        if line.trim().is_empty() {
            continue;
        }
        if limit > 0 && n_beh >= limit {
            break;
        }
        let beh: Value = serde_json::from_str(&line).map_err(|e| e.to_string())?;
        let steps = beh.as_array().cloned().unwrap_or_default();
        n_beh += 1;
        let mut um = UserModel::new_empty("book", "en", "UTC", "en")?;
        writeln!(view, "{}", json!({"ev": "reset", "kind": "reset", "res": "ok", "view": project::view(&um)})).ok();
        let mut program = vec![];
        for (si, st) in steps.iter().enumerate() {
            let a = &st["a"];
            let op = a["op"].as_str().unwrap_or("").to_string();
            *by_op.entry(op.clone()).or_default() += 1;
            let before = project::view(&um);
            let res = apply(&mut um, a);
            program.push(a.clone());
            n_steps += 1;
            let after = project::view(&um);
            writeln!(view, "{}", json!({"ev": "op", "kind": op, "res": res.tag(), "view": after})).ok();
            // the spec's guards are not verdicts: a step the engine refuses where the spec expects a
            // change (or the reverse) ends this behaviour without a verdict, except for the frame
            // law of rejected targets, which the spec states (nothing changes)
            let expect_unchanged = st["expect_unchanged"].as_bool().unwrap_or(false);
            let _ = expect_unchanged;
            if res.tag() == "panic" {
                writeln!(mism, "{}", json!({"property": "PANIC", "why": "panic", "subject": op, "detail": res.msg(), "step": si, "program": program, "behaviour": beh})).ok();
                n_mism += 1;
                break;
            }
            let cmp = match family {
                "selection" => compare_selection(&um, &st["expect"]),
                _ => None,
            };
            if let Some(d) = cmp {
                if d.starts_with("other-branch") {
                    other_branch += 1;
                    break;
                }
                // a refused call that the spec models as accepted (or vice versa) is a guard
                // mismatch unless the state itself is invalid
                let invalid = d.starts_with("selected-sheet-missing");
                if res.tag() == "err" && !invalid && before == after {
                    guard_mismatch += 1;
                    break;
                }
                let (why, detail) = d.split_once('\t').unwrap_or((&d, ""));
                writeln!(mism, "{}", json!({"property": "C28", "why": why, "subject": op, "detail": detail, "step": si, "program": program, "behaviour": beh})).ok();
                n_mism += 1;
                break;
            }
            if before != after {
                nontrivial.insert(format!("{}:{}", op, steps.iter().take(si).map(|s| s["a"]["op"].as_str().unwrap_or("")).collect::<Vec<_>>().join(">")));
            }
        }
        if samples.len() < 2 {
            samples.push(json!({"behaviour": steps}));
        }
    }
    mism.flush().ok();
    view.flush().ok();
    Ok(json!({"behaviours": n_beh, "steps_executed": n_steps, "mismatches": n_mism, "guard_mismatch": guard_mismatch, "other_branch": other_branch,
              "by_op": by_op, "distinct_nontrivial": nontrivial.len(), "samples": samples}))
}

// ------------------------------------------------------------------------------------------
// C29 column attributes: {layout: [desc], init: [obs], steps: [{a, expect: [obs]}]}

fn col_styles() -> (ironcalc_base::types::Style, ironcalc_base::types::Style) {
    let mut s1 = ironcalc_base::types::Style::default();
    s1.font.b = true;
    let mut s2 = ironcalc_base::types::Style::default();
    s2.font.i = true;
    s2.num_fmt = "0.00".to_string();
    (s1, s2)
}

fn observe_cols(model: &ironcalc_base::Model, n: i32, rows: bool) -> Value {
    let (s1, s2) = col_styles();
    let mut v = vec![];
    for c in 1..=n {
        let (w, h, st) = if rows {
            // a hidden row reports its height through the getter as it is; the observable height of
            // a hidden row is 0 in the spec, so hidden rows are reported as 0 here as well
            let hid = model.is_row_hidden(0, c).unwrap_or(false);
            let hh = model.get_row_height(0, c).unwrap_or(-1.0);
            (if hid { 0.0 } else { hh }, hid, crate::project::effective_row_style(model, 0, c))
        } else {
            (model.get_column_width(0, c).unwrap_or(-1.0), model.is_column_hidden(0, c).unwrap_or(false), model.get_column_style(0, c).ok().flatten())
        };
        let s = match st {
            None => 0,
            Some(st) if st == s1 => 1,
            Some(st) if st == s2 => 2,
            _ => 9,
        };
        v.push(json!({"w": (w.round() as i64), "h": h, "s": s}));
    }
    json!(v)
}

pub fn replay_colattrs(path: &str, out_dir: &str) -> Result<Value, String> {
    use ironcalc_base::types::Col;
    use ironcalc_base::Model;
    std::fs::create_dir_all(out_dir).map_err(|e| e.to_string())?;
    let f = std::fs::File::open(path).map_err(|e| e.to_string())?;
    let mut mism = std::io::BufWriter::new(std::fs::File::create(format!("{}/mismatches.ndjson", out_dir)).map_err(|e| e.to_string())?);
    let (s1, s2) = col_styles();
    let (mut n_beh, mut n_steps, mut n_mism, mut bad_init) = (0usize, 0usize, 0usize, 0usize);
    let mut nontrivial: BTreeSet<String> = Default::default();
    let mut samples: Vec<Value> = vec![];
    for line in std::io::BufReader::new(f).lines() {
        let line = line.map_err(|e| e.to_string())?;
        let b: Value = match serde_json::from_str(&line) {
            Ok(v) => v,
            Err(_) => continue,
        };
        n_beh += 1;
        let ncols = b["init"].as_array().map(|a| a.len()).unwrap_or(5) as i32;
        // build the initial descriptor layout exactly as an imported file would have it
        let mut base = Model::new_empty("b", "en", "UTC", "en")?;
        base.set_column_style(0, 40, &s1)?;
        base.set_column_style(0, 41, &s2)?;
        let idx = |m: &Model, c: i32| -> Option<i32> { m.workbook.worksheets[0].cols.iter().find(|d| d.min <= c && c <= d.max).and_then(|d| d.style) };
        let (i1, i2) = (idx(&base, 40), idx(&base, 41));
        let mut wb = base.workbook.clone();
        let mut cols: Vec<Col> = vec![];
        for d in b["layout"].as_array().cloned().unwrap_or_default() {
            let w = d["width"].as_f64().unwrap_or(90.0);
            cols.push(Col {
                min: d["min"].as_i64().unwrap_or(1) as i32,
                max: d["max"].as_i64().unwrap_or(1) as i32,
                width: w / ironcalc_base::COLUMN_WIDTH_FACTOR,
                custom_width: true,
                hidden: d["hidden"].as_bool().unwrap_or(false),
                style: match d["style"].as_i64().unwrap_or(0) {
                    1 => i1,
                    2 => i2,
                    _ => None,
                },
            });
        }
        wb.worksheets[0].cols = cols;
        let rows = b["steps"].as_array().and_then(|a| a.first()).map(|st| st["a"]["op"].as_str().unwrap_or("").starts_with("row")).unwrap_or(false);
        if rows {
            // rows have one record per row
            let mut recs = vec![];
            for d in b["layout"].as_array().cloned().unwrap_or_default() {
                let sidx = match d["style"].as_i64().unwrap_or(0) { 1 => i1, 2 => i2, _ => None };
                recs.push(ironcalc_base::types::Row {
                    r: d["min"].as_i64().unwrap_or(1) as i32,
                    height: d["width"].as_f64().unwrap_or(25.0) / ironcalc_base::ROW_HEIGHT_FACTOR,
                    custom_format: sidx.is_some(),
                    custom_height: true,
                    s: sidx.unwrap_or(0),
                    hidden: d["hidden"].as_bool().unwrap_or(false),
                });
            }
            wb.worksheets[0].cols = vec![];
            wb.worksheets[0].rows = recs;
        }
        let mut model = Model::from_workbook(wb, "en")?;
        if observe_cols(&model, ncols, rows) != b["init"] {
            bad_init += 1; // the layout does not mean to the engine what it means to the spec: no verdict
            continue;
        }
        let mut program = vec![];
        for (si, st) in b["steps"].as_array().cloned().unwrap_or_default().iter().enumerate() {
            let a = &st["a"];
            let c = a["c"].as_i64().unwrap_or(1) as i32;
            let op = a["op"].as_str().unwrap_or("");
            let before = observe_cols(&model, ncols, rows);
            let r = std::panic::catch_unwind(std::panic::AssertUnwindSafe(|| match op {
                "col_width" => model.set_column_width(0, c, a["v"].as_f64().unwrap_or(90.0)),
                "col_hidden" => model.set_column_hidden(0, c, a["v"].as_bool().unwrap_or(false)),
                "col_style" => model.set_column_style(0, c, if a["v"].as_i64() == Some(1) { &s1 } else { &s2 }),
                "col_style_delete" => model.delete_column_style(0, c),
                "row_width" => model.set_row_height(0, c, a["v"].as_f64().unwrap_or(25.0)),
                "row_hidden" => model.set_row_hidden(0, c, a["v"].as_bool().unwrap_or(false)),
                "row_style" => model.set_row_style(0, c, if a["v"].as_i64() == Some(1) { &s1 } else { &s2 }),
                "row_style_delete" => model.delete_row_style(0, c),
                _ => Err("unknown op".to_string()),
            }));
            program.push(a.clone());
            n_steps += 1;
            let got = observe_cols(&model, ncols, rows);
            let ok = matches!(r, Ok(Ok(())));
            if !ok || got != st["expect"] {
                // which attribute of which column is wrong, relative to the acted column
                let mut why = String::from("call-failed");
                if ok {
                    let (g, e) = (got.as_array().unwrap(), st["expect"].as_array().unwrap());
                    for i in 0..g.len() {
                        if g[i] != e[i] {
                            let attr = if g[i]["w"] != e[i]["w"] { "width" } else if g[i]["h"] != e[i]["h"] { "hidden" } else { "style" };
                            let whichcol = if (i as i32 + 1) == c { "same-column" } else { "other-column" };
                            why = format!("{attr}-of-{whichcol}");
                            break;
                        }
                    }
                }
                let spans = b["layout"].as_array().map(|l| l.iter().any(|d| d["min"] != d["max"] && d["min"].as_i64().unwrap_or(0) as i32 <= c && c <= d["max"].as_i64().unwrap_or(0) as i32)).unwrap_or(false);
                let subject = format!("{}{}{}", op, if spans { ":inside-multi-column-descriptor" } else { "" }, if before[(c - 1) as usize]["h"] == json!(true) { ":hidden" } else { "" });
                writeln!(mism, "{}", json!({"property": "C29", "why": why, "subject": subject, "case": {"layout": b["layout"], "program": program, "step": si},
                    "detail": format!("got {} want {}", got, st["expect"])})).ok();
                n_mism += 1;
                break;
            }
            if got != before {
                nontrivial.insert(format!("{}:{}", op, b["layout"]));
            }
        }
        if samples.len() < 2 && !b["layout"].as_array().map(|a| a.is_empty()).unwrap_or(true) {
            samples.push(b.clone());
        }
    }
    mism.flush().ok();
    Ok(json!({"cases": n_beh, "checks": n_steps, "mismatches": n_mism, "distinct_nontrivial": nontrivial.len(), "samples": samples, "no_verdict": bad_init}))
}

// ------------------------------------------------------------------------------------------
// C30 styles: behaviour = [{a: {op: assign, target, style}, expect: {cellA1, cellB2, row3, colD, probeRow, probeCol, probeCross}}]

fn style_of_spec(v: &Value) -> Option<ironcalc_base::types::Style> {
    use ironcalc_base::types::{Alignment, BorderItem, BorderStyle, Color, HorizontalAlignment, Style};
    if v["fmt"] == "unset" {
        return None;
    }
    let mut s = Style::default();
    s.num_fmt = v["fmt"].as_str().unwrap_or("general").to_string();
    match v["font"].as_str().unwrap_or("default") {
        "bold" => s.font.b = true,
        "italic14" => {
            s.font.i = true;
            s.font.sz = 14;
        }
        "red" => s.font.color = Color::Rgb("#FF0000".to_string()),
        "theme4" => s.font.color = Color::Theme(4, 0.4),
        _ => {}
    }
    if v["fill"] == "yellow" {
        s.fill.color = Color::Rgb("#FFFF00".to_string());
    }
    let item = |st: BorderStyle| Some(BorderItem { style: st, color: Color::Rgb("#000000".to_string()) });
    match v["border"].as_str().unwrap_or("none") {
        "thintop" => s.border.top = item(BorderStyle::Thin),
        "mediumall" => {
            s.border.top = item(BorderStyle::Medium);
            s.border.bottom = item(BorderStyle::Medium);
            s.border.left = item(BorderStyle::Medium);
            s.border.right = item(BorderStyle::Medium);
        }
        _ => {}
    }
    match v["align"].as_str().unwrap_or("none") {
        "center" => s.alignment = Some(Alignment { horizontal: HorizontalAlignment::Center, ..Default::default() }),
        "wrap" => s.alignment = Some(Alignment { wrap_text: true, ..Default::default() }),
        "alldefault" => s.alignment = Some(Alignment::default()),
        _ => {}
    }
    s.quote_prefix = v["qp"].as_bool().unwrap_or(false);
    Some(s)
}

pub fn replay_styles(path: &str, out_dir: &str) -> Result<Value, String> {
    use ironcalc_base::Model;
    std::fs::create_dir_all(out_dir).map_err(|e| e.to_string())?;
    let f = std::fs::File::open(path).map_err(|e| e.to_string())?;
    let mut mism = std::io::BufWriter::new(std::fs::File::create(format!("{}/mismatches.ndjson", out_dir)).map_err(|e| e.to_string())?);
    let (mut n_beh, mut n_steps, mut n_mism) = (0usize, 0usize, 0usize);
    let mut nontrivial: BTreeSet<String> = Default::default();
    let mut samples: Vec<Value> = vec![];
    let read = |m: &Model| -> Vec<(&'static str, Option<ironcalc_base::types::Style>)> {
        vec![
            ("cellA1", m.get_style_for_cell(0, 1, 1).ok()),
            ("cellB2", m.get_style_for_cell(0, 2, 2).ok()),
            ("row3", crate::project::effective_row_style(m, 0, 3)),
            ("colD", m.get_column_style(0, 4).ok().flatten()),
            ("probeRow", m.get_style_for_cell(0, 3, 7).ok()),
            ("probeCol", m.get_style_for_cell(0, 9, 4).ok()),
            ("probeCross", m.get_style_for_cell(0, 3, 4).ok()),
        ]
    };
    for line in std::io::BufReader::new(f).lines() {
        let line = line.map_err(|e| e.to_string())?;
        let b: Value = match serde_json::from_str(&line) {
            Ok(v) => v,
            Err(_) => continue,
        };
        n_beh += 1;
        let mut model = Model::new_empty("b", "en", "UTC", "en")?;
        let steps = b.as_array().cloned().unwrap_or_default();
        let mut program = vec![];
        'beh: for (si, st) in steps.iter().enumerate() {
            let a = &st["a"];
            let target = a["target"].as_str().unwrap_or("");
            let style = match style_of_spec(&a["style"]) {
                Some(s) => s,
                None => continue,
            };
            let r = match target {
                "cellA1" => model.set_cell_style(0, 1, 1, &style),
                "cellB2" => model.set_cell_style(0, 2, 2, &style),
                "row3" => model.set_row_style(0, 3, &style),
                _ => model.set_column_style(0, 4, &style),
            };
            program.push(json!({"target": target, "style": a["style"]}));
            n_steps += 1;
            // read back directly and after a binary round trip at the last step
            let mut views = vec![("direct", read(&model))];
            if si + 1 == steps.len() {
                if let Ok(m2) = Model::from_bytes(&model.to_bytes(), "en") {
                    views.push(("after-reload", read(&m2)));
                }
            }
            for (vname, got) in views {
                for (name, g) in got {
                    let want = style_of_spec(&st["expect"][name]);
                    // a row whose style is the default style is not distinguishable from a row without style
                    let same = g == want || (want.as_ref() == Some(&ironcalc_base::types::Style::default()) && g.is_none() && (name == "row3"));
                    if r.is_err() || !same {
                        let kind = if name == target { "read-back" } else { "aliasing" };
                        let attr = match (&g, &want) {
                            (Some(x), Some(y)) => {
                                if x.num_fmt != y.num_fmt { "num_fmt" } else if x.font != y.font { "font" } else if x.fill != y.fill { "fill" } else if x.border != y.border { "border" } else if x.alignment != y.alignment { "alignment" } else { "quote_prefix" }
                            }
                            _ => "presence",
                        };
                        writeln!(mism, "{}", json!({"property": "C30", "why": format!("{kind}-{attr}"), "subject": format!("{target}->{name}:{vname}"),
                            "case": {"program": program, "step": si}, "detail": format!("read {:?} want {:?}", g.map(|x| serde_json::to_value(x).unwrap_or(Value::Null)), want.map(|x| serde_json::to_value(x).unwrap_or(Value::Null)))})).ok();
                        n_mism += 1;
                        break 'beh;
                    }
                }
            }
            nontrivial.insert(format!("{}:{}", target, a["style"]));
        }
        if samples.len() < 2 && n_beh % 700 == 3 {
            samples.push(b.clone());
        }
    }
    mism.flush().ok();
    Ok(json!({"cases": n_beh, "checks": n_steps * 7, "mismatches": n_mism, "distinct_nontrivial": nontrivial.len(), "samples": samples, "no_verdict": 0}))
}
