//! C09 (and helpers for C16/C10): spec syntax trees <-> engine nodes, localisation of spec token
//! sequences, the four printers.

use crate::cases::Report;
use ironcalc_base::expressions::lexer::LexerMode;
use ironcalc_base::expressions::parser::stringify::{to_english_string, to_excel_string, to_localized_string, to_rc_format};
use ironcalc_base::expressions::parser::{Node, Parser};
use ironcalc_base::expressions::token::{OpCompare, OpProduct, OpSum, OpUnary};
use ironcalc_base::expressions::types::CellReferenceRC;
use ironcalc_base::language::Language;
use ironcalc_base::locale::Locale;
use ironcalc_base::Function;
use serde_json::{json, Value};
use std::io::BufRead;

pub const HOST: (i32, i32) = (1, 1);

/// Engine node -> the spec's tree (JSON), None for node kinds outside the modelled language.
pub fn shape(n: &Node) -> Option<Value> {
    Some(match n {
        Node::NumberKind(f) => json!({"k": "num", "v": crate::project::num15(*f)}),
        Node::StringKind(s) => json!({"k": "str", "v": s}),
        Node::BooleanKind(b) => json!({"k": "bool", "v": if *b { "TRUE" } else { "FALSE" }}),
        Node::ReferenceKind { absolute_row, absolute_column, row, column, sheet_name: None, .. } => {
            let r = if *absolute_row { *row } else { HOST.0 + *row };
            let c = if *absolute_column { *column } else { HOST.1 + *column };
            let col = ironcalc_base::expressions::utils::number_to_column(c)?;
            json!({"k": "ref", "v": format!("{}{}{}{}", if *absolute_column { "$" } else { "" }, col, if *absolute_row { "$" } else { "" }, r)})
        }
        Node::OpSumKind { kind, left, right } => json!({"k": "bin", "op": match kind { OpSum::Add => "+", OpSum::Minus => "-" }, "l": shape(left)?, "r": shape(right)?}),
        Node::OpProductKind { kind, left, right } => json!({"k": "bin", "op": match kind { OpProduct::Times => "*", OpProduct::Divide => "/" }, "l": shape(left)?, "r": shape(right)?}),
        Node::OpPowerKind { left, right } => json!({"k": "bin", "op": "^", "l": shape(left)?, "r": shape(right)?}),
        Node::OpConcatenateKind { left, right } => json!({"k": "bin", "op": "&", "l": shape(left)?, "r": shape(right)?}),
        Node::CompareKind { kind, left, right } => json!({"k": "bin", "op": match kind {
            OpCompare::Equal => "=", OpCompare::NonEqual => "<>", OpCompare::LessThan => "<", OpCompare::LessOrEqualThan => "<=",
            OpCompare::GreaterThan => ">", OpCompare::GreaterOrEqualThan => ">=" }, "l": shape(left)?, "r": shape(right)?}),
        Node::UnaryKind { kind: OpUnary::Minus, right } => json!({"k": "un", "x": shape(right)?}),
        Node::UnaryKind { kind: OpUnary::Percentage, right } => json!({"k": "pct", "x": shape(right)?}),
        Node::FunctionKind { kind, args } => {
            let mut a = vec![];
            for x in args {
                a.push(shape(x)?);
            }
            json!({"k": "fn", "name": kind.to_xlsx_string().trim_start_matches("_xlfn.").to_string(), "args": a})
        }
        Node::ImplicitIntersection { automatic: true, child } => shape(child)?,
        _ => return None,
    })
}

/// Normalises the spec's tree for comparison (numbers through the same 15-digit text).
pub fn norm_tree(t: &Value) -> Value {
    match t["k"].as_str().unwrap_or("") {
        "num" => json!({"k": "num", "v": crate::project::num15(t["v"].as_str().unwrap_or("0").parse::<f64>().unwrap_or(f64::NAN))}),
        "bin" => json!({"k": "bin", "op": t["op"], "l": norm_tree(&t["l"]), "r": norm_tree(&t["r"])}),
        "un" => json!({"k": "un", "x": norm_tree(&t["x"])}),
        "pct" => json!({"k": "pct", "x": norm_tree(&t["x"])}),
        "fn" => json!({"k": "fn", "name": t["name"], "args": t["args"].as_array().map(|a| a.iter().map(norm_tree).collect::<Vec<_>>()).unwrap_or_default()}),
        _ => t.clone(),
    }
}

/// Spec token sequence -> text in a language / locale.
pub fn localise(tokens: &Value, locale: &Locale, language: &Language) -> String {
    let dec = locale.numbers.symbols.decimal.clone();
    let argsep = if dec == "," { ";" } else { "," };
    let mut out = String::new();
    for t in tokens.as_array().cloned().unwrap_or_default() {
        let v = t["v"].as_str().unwrap_or("");
        match t["k"].as_str().unwrap_or("") {
            "num" => out.push_str(&v.replace('.', &dec)),
            "str" => {
                out.push('"');
                out.push_str(&v.replace('"', "\"\""));
                out.push('"');
            }
            "bool" => out.push_str(if v == "TRUE" { &language.booleans.r#true } else { &language.booleans.r#false }),
            "fn" => {
                let name = Function::into_iter().find(|f| f.to_xlsx_string() == v).map(|f| f.to_localized_name(language)).unwrap_or(v.to_string());
                out.push_str(&name);
            }
            "comma" => out.push_str(argsep),
            _ => out.push_str(v),
        }
    }
    out
}

fn ctx() -> CellReferenceRC {
    CellReferenceRC { sheet: "Sheet1".to_string(), row: HOST.0, column: HOST.1 }
}

fn parse_with(text: &str, locale: &'static Locale, language: &'static Language, r1c1: bool) -> Node {
    let mut p = Parser::new(vec!["Sheet1".to_string()], vec![], std::collections::HashMap::new(), locale, language);
    if r1c1 {
        p.set_lexer_mode(LexerMode::R1C1);
    }
    p.parse(text, &ctx())
}

pub const CONFIGS_QUICK: &[(&str, &str)] = &[("en", "en"), ("es", "es"), ("de", "de"), ("fr", "fr"), ("it", "en-GB")];
pub const LANGS: &[&str] = &["en", "es", "fr", "de", "it"];
pub const LOCALES: &[&str] = &["en", "en-GB", "es", "fr", "de", "it"];

pub fn run(path: &str, out_dir: &str, thorough: bool, seed: u64) -> Result<Value, String> {
    let mut rep = Report::new(out_dir)?;
    let en_locale = ironcalc_base::locale::get_locale("en").map_err(|_| "locale")?;
    let en_lang = ironcalc_base::language::get_language("en").map_err(|_| "language")?;
    let mut configs: Vec<(String, String)> = vec![];
    if thorough {
        for l in LANGS {
            for loc in LOCALES {
                configs.push((l.to_string(), loc.to_string()));
            }
        }
    } else {
        for (l, loc) in CONFIGS_QUICK {
            configs.push((l.to_string(), loc.to_string()));
        }
        // one mixed pair per seed
        configs.push((LANGS[(seed as usize) % 5].to_string(), LOCALES[(seed as usize / 5) % 6].to_string()));
    }
    let f = std::fs::File::open(path).map_err(|e| e.to_string())?;
    let mut parser_rejects = 0usize;
    for line in std::io::BufReader::new(f).lines() {
        let line = line.map_err(|e| e.to_string())?;
        let c: Value = match serde_json::from_str(&line) {
            Ok(v) => v,
            Err(_) => continue,
        };
        rep.n_cases += 1;
        let want = norm_tree(&c["tree"]);
        for (ci, (lang, loc)) in configs.iter().enumerate() {
            let locale = ironcalc_base::locale::get_locale(loc).map_err(|_| "locale")?;
            let language = ironcalc_base::language::get_language(lang).map_err(|_| "language")?;
            let full = localise(&c["full"], locale, language);
            let min = localise(&c["min"], locale, language);
            let small = json!({"full": full, "min": min, "lang": lang, "locale": loc});
            let subject_of = |t: &Value| -> String {
                // (parent kind, child kinds) class for signatures
                let k = |x: &Value| -> String {
                    match x["k"].as_str().unwrap_or("") {
                        "bin" => format!("{}", x["op"].as_str().unwrap_or("")),
                        o => o.to_string(),
                    }
                };
                match t["k"].as_str().unwrap_or("") {
                    "bin" => format!("({}){}({})", k(&t["l"]), k(t), k(&t["r"])),
                    "un" => format!("-({})", k(&t["x"])),
                    "pct" => format!("({})%", k(&t["x"])),
                    "fn" => format!("fn({})", t["args"].as_array().and_then(|a| a.first()).map(|a| k(a)).unwrap_or_default()),
                    o => o.to_string(),
                }
            };
            let subj = subject_of(&c["tree"]);
            // 1. parser conformance on unambiguous text
            rep.n_checks += 1;
            let r = std::panic::catch_unwind(|| parse_with(&full, locale, language, false));
            let node = match r {
                Ok(n) => n,
                Err(_) => {
                    rep.mismatch("PANIC", "panic", "Parser::parse", small.clone(), "panic".into());
                    continue;
                }
            };
            if let Node::ParseErrorKind { message, .. } = &node {
                // C09 quantifies over formulas the parser accepts
                parser_rejects += 1;
                if ci == 0 {
                    rep.no_verdict += 1;
                }
                let _ = message;
                continue;
            }
            let got = shape(&node);
            if got.as_ref() != Some(&want) {
                rep.mismatch("C09", "parse-full", &subj, small.clone(), format!("parsed to {}", got.map(|g| g.to_string()).unwrap_or("<unmodelled node>".into())));
                continue;
            }
            // 2. precedence conformance on minimal text
            rep.n_checks += 1;
            let node_min = parse_with(&min, locale, language, false);
            if shape(&node_min).as_ref() != Some(&want) {
                rep.mismatch("C09", "parse-min", &subj, small.clone(), format!("parsed to {}", shape(&node_min).map(|g| g.to_string()).unwrap_or("<error>".into())));
            }
            if full != min {
                rep.nontrivial.insert(subj.clone());
            }
            // 3. the printers
            let printed: [(&str, String, &'static Locale, &'static Language, bool); 4] = [
                ("display", to_localized_string(&node, &ctx(), locale, language), locale, language, false),
                ("internal", to_rc_format(&node), en_locale, en_lang, true),
                ("english", to_english_string(&node, &ctx()), en_locale, en_lang, false),
                ("xlsx", to_excel_string(&node, &ctx()), en_locale, en_lang, false),
            ];
            for (pname, text, ploc, plang, r1c1) in printed.iter() {
                if *pname != "display" && ci > 0 {
                    continue; // these three do not depend on the configuration
                }
                rep.n_checks += 1;
                let back = parse_with(text, ploc, plang, *r1c1);
                let sb = shape(&back);
                if sb.as_ref() != Some(&want) {
                    rep.mismatch("C09", &format!("print-{pname}"), &subj, small.clone(), format!("printed '{}' which parses to {}", text, sb.map(|g| g.to_string()).unwrap_or("<error>".into())));
                }
            }
        }
        if rep.samples.len() < 3 && c["full"] != c["min"] {
            rep.samples.push(json!({"tree": c["tree"], "full": localise(&c["full"], en_locale, en_lang), "min": localise(&c["min"], en_locale, en_lang)}));
        }
    }
    let mut v = rep.finish();
    v["configurations"] = json!(configs.len());
    v["parser_rejects"] = json!(parser_rejects);
    Ok(v)
}
