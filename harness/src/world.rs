//! The system under test as the History specification sees it: a primary UserModel, a replica
//! fed from the outgoing diff queue, and (after the first reload) a never-reloaded shadow.
//! `step` executes one abstract action on the real code and returns the events it produced
//! (one per public call, with the projected state).

use crate::ops::{apply, panic_msg, Res};
use crate::project::{self, Interner};
use ironcalc_base::UserModel;
use serde_json::{json, Value};
use std::collections::VecDeque;
use std::panic::{catch_unwind, AssertUnwindSafe};

pub struct World {
    pub um: UserModel<'static>,
    pub replica: UserModel<'static>,
    pub shadow: Option<UserModel<'static>>,
    /// flushed batches: (diff bytes, primary's bytes at flush time, primary's doc id at flush time)
    pub net: VecDeque<(Vec<u8>, Vec<u8>, usize)>,
    pub use_shadow: bool,
}

pub fn static_lang(l: &str) -> &'static str {
    match l {
        "es" => "es",
        "fr" => "fr",
        "de" => "de",
        "it" => "it",
        _ => "en",
    }
}

fn input_class(text: &str) -> &'static str {
    let t = text.trim();
    if text.starts_with('\'') {
        "quoted"
    } else if text.starts_with('=') {
        if text.contains("SEQUENCE") || text.contains(":A3") || text.starts_with("={") {
            "formula-array"
        } else {
            "formula"
        }
    } else if t.is_empty() {
        "empty"
    } else if t.ends_with('%') {
        "percent"
    } else if t.contains('$') || t.contains('€') {
        "currency"
    } else if (t.contains('/') && t.chars().filter(|c| *c == '/').count() == 2)
        || (t.len() == 10 && t.chars().filter(|c| *c == '-').count() == 2)
    {
        "date"
    } else if t.contains(',') && t.chars().all(|c| c.is_ascii_digit() || c == ',' || c == '.' || c == '-') {
        "grouped"
    } else if t.to_ascii_lowercase().contains('e') && t.parse::<f64>().is_ok() {
        "scientific"
    } else if t.parse::<f64>().is_ok() {
        "number"
    } else if t.eq_ignore_ascii_case("true") || t.eq_ignore_ascii_case("false") {
        "bool"
    } else if t.starts_with('#') {
        "error"
    } else if t.starts_with("http") || t.contains('@') {
        "url"
    } else {
        "text"
    }
}

/// Operation kind with the argument class that matters for classification (never for verdicts).
pub fn op_class(a: &Value) -> String {
    let op = a["op"].as_str().unwrap_or("");
    match op {
        "input" => format!("input:{}", input_class(a["text"].as_str().unwrap_or(""))),
        "style" => format!("style:{}", a["path"].as_str().unwrap_or("")),
        "copy_paste" => format!("copy_paste:{}", if a["cut"].as_bool().unwrap_or(false) { "cut" } else { "copy" }),
        _ => op.to_string(),
    }
}

impl World {
    pub fn new(lang: &str, locale: &str) -> Result<World, String> {
        let um = UserModel::new_empty("book", locale_static(locale), "UTC", static_lang(lang))
            .or_else(|_| UserModel::new_empty("book", "en", "UTC", "en"))?;
        Self::from_um(um)
    }

    pub fn from_um(um: UserModel<'static>) -> Result<World, String> {
        let lang = static_lang(&um.get_language());
        let replica = UserModel::from_bytes(&um.to_bytes(), lang)?;
        Ok(World { um, replica, shadow: None, net: VecDeque::new(), use_shadow: true })
    }

    pub fn doc_id(&self, it: &mut Interner) -> usize {
        it.id(&project::doc(&self.um))
    }

    fn base(&self, it: &mut Interner, ev: &str, kind: &str, res: &Res) -> Value {
        json!({"ev": ev, "kind": kind, "res": res.tag(), "msg": res.msg(), "doc": it.id(&project::doc(&self.um)),
               "hist": project::hist(&self.um), "cu": self.um.can_undo(), "cr": self.um.can_redo()})
    }

    fn apply_one(&mut self, it: &mut Interner, out: &mut Vec<Value>) {
        if let Some((bytes, snapshot, want)) = self.net.pop_front() {
            let replica = &mut self.replica;
            let r = catch_unwind(AssertUnwindSafe(|| replica.apply_external_diffs(&bytes)));
            let res = match r {
                Ok(Ok(())) => Res::Ok,
                Ok(Err(m)) => Res::Err(m),
                Err(e) => Res::Panic(panic_msg(e)),
            };
            let rd = it.id(&project::doc(&self.replica));
            let mut ev = self.base(it, "apply", "apply", &res);
            ev["rdoc"] = json!(rd);
            out.push(ev);
            // A replica that did not reach the primary's state at flush time is re-created from
            // the primary's bytes at that flush, so that every later batch is judged on its own
            // (the trace spec does the same: after a C03 violation rdoc' is the wanted document).
            if rd != want || res != Res::Ok {
                if let Ok(r) = UserModel::from_bytes(&snapshot, static_lang(&self.um.get_language())) {
                    self.replica = r;
                }
                let mut ev = self.base(it, "rsync", "rsync", &Res::Ok);
                ev["rdoc"] = json!(it.id(&project::doc(&self.replica)));
                out.push(ev);
            }
        }
    }

    fn flush(&mut self, it: &mut Interner, out: &mut Vec<Value>) {
        let bytes = self.um.flush_send_queue();
        let snapshot = self.um.to_bytes();
        let d = it.id(&project::doc(&self.um));
        self.net.push_back((bytes, snapshot, d));
        out.push(self.base(it, "flush", "flush", &Res::Ok));
    }

    /// Executes one abstract action {"act": "op"|"undo"|"redo"|"flush"|"apply"|"reload", "a": {...}}.
    pub fn step(&mut self, it: &mut Interner, act: &Value) -> Vec<Value> {
        let mut out = vec![];
        match act["act"].as_str().unwrap_or("") {
            "op" => {
                let a = &act["a"];
                let res = apply(&mut self.um, a);
                if let Some(sh) = self.shadow.as_mut() {
                    let _ = apply(sh, a);
                }
                let mut ev = self.base(it, "op", &op_class(a), &res);
                if res == Res::Ok {
                    ev["diffs"] = json!(self.um.verif_last_diff_kinds());
                }
                out.push(ev);
            }
            k @ ("undo" | "redo") => {
                let a = json!({ "op": k });
                let could = if k == "undo" { self.um.can_undo() } else { self.um.can_redo() };
                let res = apply(&mut self.um, &a);
                if could {
                    if let Some(sh) = self.shadow.as_mut() {
                        let _ = apply(sh, &a);
                    }
                }
                out.push(self.base(it, k, k, &res));
            }
            "flush" => self.flush(it, &mut out),
            "apply" => self.apply_one(it, &mut out),
            "reload" => {
                // bring the replica up to date first: the reloaded model has an empty queue
                self.flush(it, &mut out);
                while !self.net.is_empty() {
                    self.apply_one(it, &mut out);
                }
                let bytes = self.um.to_bytes();
                let lang = static_lang(&self.um.get_language());
                let r = catch_unwind(AssertUnwindSafe(|| UserModel::from_bytes(&bytes, lang)));
                match r {
                    Ok(Ok(mut fresh)) => {
                        // evaluation after load must not change anything either
                        fresh.evaluate();
                        let old = std::mem::replace(&mut self.um, fresh);
                        if self.shadow.is_none() && self.use_shadow {
                            self.shadow = Some(old);
                        }
                        out.push(self.base(it, "reload", "reload", &Res::Ok));
                    }
                    Ok(Err(m)) => out.push(self.base(it, "reload", "reload", &Res::Err(m))),
                    Err(e) => out.push(self.base(it, "reload", "reload", &Res::Panic(panic_msg(e)))),
                }
            }
            _ => {}
        }
        if let Some(sh) = self.shadow.as_ref() {
            if matches!(act["act"].as_str().unwrap_or(""), "op" | "undo" | "redo") {
                let sd = it.id(&project::doc(sh));
                let mut ev = self.base(it, "shadow", "shadow", &Res::Ok);
                ev["sdoc"] = json!(sd);
                let d = ev["doc"].as_u64().unwrap_or(0) as usize;
                out.push(ev);
                if sd != d {
                    self.shadow = None; // reported once by the trace spec; stop comparing
                }
            }
        }
        out
    }
}

fn locale_static(l: &str) -> &'static str {
    match l {
        "en-GB" => "en-GB",
        "es" => "es",
        "fr" => "fr",
        "de" => "de",
        "it" => "it",
        _ => "en",
    }
}
