//! C06: cases of Value.tla (formula text + expected value of the reference evaluator) typed
//! into the real engine on the fixed sheet A1..A8 and compared.

use crate::cases::Report;
use ironcalc_base::cell::CellValue;
use ironcalc_base::Model;
use serde_json::{json, Value};
use std::io::BufRead;


fn sheet() -> Result<Model<'static>, String> {
    let mut m = Model::new_empty("b", "en", "UTC", "en")?;
    // A1 = 2, A2 = "a", A3 = TRUE, A4 empty, A5 = "12" (text), A6 = #DIV/0!, A7 = -1.5, A8 = "TRUE" (text)
    for (r, t) in [(1, "2"), (2, "a"), (3, "TRUE"), (5, "'12"), (6, "=1/0"), (7, "-1.5"), (8, "'TRUE")] {
        m.set_user_input(0, r, 1, t.to_string())?;
    }
    m.evaluate();
    Ok(m)
}

pub fn run(path: &str, out_dir: &str) -> Result<Value, String> {
    let mut rep = Report::new(out_dir)?;
    let mut model = sheet()?;
    // the sheet must mean to the engine what it means to the spec
    let english = ironcalc_base::language::get_language("en").map_err(|_| "language")?;
    let _ = english;
    let f = std::fs::File::open(path).map_err(|e| e.to_string())?;
    // operands before the formulas built from them: a disagreement is attributed to the innermost
    // sub-formula on which engine and reference already disagree
    let mut cases: Vec<Value> = std::io::BufReader::new(f).lines().filter_map(|l| l.ok()).filter_map(|l| serde_json::from_str(&l).ok()).collect();
    cases.sort_by_key(|c: &Value| c["txt"].as_str().map(|s| s.len()).unwrap_or(0));
    let mut root: std::collections::HashMap<String, (String, String)> = Default::default();
    let mut consequences: std::collections::BTreeMap<String, usize> = Default::default();
    for c in cases {
        rep.n_cases += 1;
        let txt = c["txt"].as_str().unwrap_or("");
        let want = &c["val"];
        if want["t"] == "nov" {
            rep.no_verdict += 1;
            continue;
        }
        let formula = format!("={txt}");
        let small = json!({"formula": formula, "spec": {"t": want["t"], "n": want["n"], "d": want["d"], "s": want["s"], "b": want["b"]}});
        let subject = if c["k"] == "fn" { c["op"].as_str().unwrap_or("").to_string() } else { format!("{}{}", c["k"].as_str().unwrap_or(""), c["op"].as_str().unwrap_or("")) };
        let r = std::panic::catch_unwind(std::panic::AssertUnwindSafe(|| {
            let r = model.set_user_input(0, 1, 3, formula.clone());
            model.evaluate();
            r
        }));
        match r {
            Err(_) => {
                rep.mismatch("C06", "panic", &subject, small, format!("panic @ {}", crate::ops::last_panic_location()));
                model = sheet()?;
                continue;
            }
            Ok(Err(e)) => {
                rep.mismatch("C06", "input-rejected", &subject, small, e);
                continue;
            }
            Ok(Ok(())) => {}
        }
        rep.n_checks += 1;
        let got = model.get_cell_value_by_index(0, 1, 3).unwrap_or(CellValue::None);
        let ty = model.get_cell_type(0, 1, 3).map(|t| crate::project::cell_type_name(&t)).unwrap_or("?");
        let (ok, shown) = match (want["t"].as_str().unwrap_or(""), &got) {
            ("num", CellValue::Number(x)) if ty == "num" => {
                let w = want["n"].as_f64().unwrap_or(0.0) / want["d"].as_f64().unwrap_or(1.0);
                ((x - w).abs() <= 1e-12 * w.abs().max(1.0), format!("number {x}"))
            }
            ("bool", CellValue::Boolean(b)) => (*b == want["b"].as_bool().unwrap_or(false), format!("boolean {b}")),
            ("str", CellValue::String(s)) if ty == "text" => (s == want["s"].as_str().unwrap_or(""), format!("text {s:?}")),
            ("err", CellValue::String(s)) if ty == "err" => (s == want["s"].as_str().unwrap_or(""), format!("error {s}")),
            (_, g) => (false, format!("{ty} {g:?}")),
        };
        rep.nontrivial.insert(format!("{}:{}", subject, want["t"].as_str().unwrap_or("")));
        if !ok {
            let wtxt = match want["t"].as_str().unwrap_or("") {
                "num" => format!("number {}/{}", want["n"], want["d"]),
                "bool" => format!("boolean {}", want["b"]),
                "str" => format!("text {}", want["s"]),
                _ => format!("error {}", want["s"]),
            };
            // class of the disagreement: what kind of value each side has
            let gk = match (&got, ty) {
                (CellValue::Number(_), _) => "num".to_string(),
                (CellValue::Boolean(_), _) => "bool".to_string(),
                (CellValue::String(s), "err") => s.clone(),
                (CellValue::String(_), _) => "str".to_string(),
                _ => "none".to_string(),
            };
            let wk = if want["t"] == "err" { want["s"].as_str().unwrap_or("").to_string() } else { want["t"].as_str().unwrap_or("").to_string() };
            let inherited = c["a"].as_array().and_then(|a| a.iter().find_map(|t| root.get(t.as_str().unwrap_or("")).cloned()));
            let (why, subj) = inherited.clone().unwrap_or((format!("want-{wk}-got-{gk}"), subject.clone()));
            root.insert(txt.to_string(), (why.clone(), subj.clone()));
            if inherited.is_some() {
                rep.no_verdict += 1; // counted under its root cause only
                *consequences.entry(format!("{why}|{subj}")).or_insert(0) += 1;
            } else {
                rep.mismatch("C06", &why, &subj, small, format!("{formula}: engine {shown}, reference {wtxt}"));
            }
        } else if rep.samples.len() < 3 && rep.n_cases % 997 == 0 {
            rep.samples.push(small);
        }
    }
    let mut out = rep.finish();
    out["consequences_of_listed_disagreements"] = json!(consequences);
    Ok(out)
}
