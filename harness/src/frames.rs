//! C10 / C17 / C32: frame laws of language / locale switches, sheet rename / move / duplicate /
//! delete, defined-name rename, cross-language re-entry and both file round trips
//! (Frames.tla, TraceFrames.tla).  A workbook with cross-sheet references, references to a
//! missing sheet, global / local / LAMBDA names and a conditional format goes through seeded
//! random sequences of those operations; before and after every operation the components the
//! laws speak about are projected and logged (opaque ones as interned ids, sheet-name and
//! defined-name uses as data) and TLC checks each event against the law of its action.

use crate::project::{value_json, Interner};
use ironcalc_base::cell::CellValue;
use ironcalc_base::expressions::parser::Node;
use ironcalc_base::UserModel;
use rand::rngs::StdRng;
use rand::{Rng, SeedableRng};
use serde_json::{json, Map, Value};
use std::io::Write;

const LANGS: [&str; 5] = ["en", "es", "fr", "de", "it"];
const LOCALES: [&str; 6] = ["en", "en-GB", "es", "fr", "de", "it"];
const NEW_NAMES: [&str; 8] = ["Renamed", "My Data", "Q1-2024", "it's", "Hoja nueva", "\u{4f60}\u{597d}", "A1", "x.y"];
/// functions whose result reads sheet names or formula text as text (C17) or depends on the locale (C10)
const SHEET_TEXT_FNS: [&str; 6] = ["SHEET(", "SHEETS(", "CELL(", "INDIRECT(", "FORMULATEXT(", "ADDRESS("];
const LOCALE_FNS: [&str; 8] = ["TEXT(", "VALUE(", "FIXED(", "DOLLAR(", "NUMBERVALUE(", "DATEVALUE(", "TIMEVALUE(", "&"];

fn walk(n: &Node, sheets: &mut Vec<String>, names: &mut Vec<String>) {
    match n {
        Node::ReferenceKind { sheet_name, .. } | Node::RangeKind { sheet_name, .. } | Node::WrongReferenceKind { sheet_name, .. } | Node::WrongRangeKind { sheet_name, .. } => {
            if let Some(s) = sheet_name {
                sheets.push(s.clone());
            }
        }
        Node::DefinedNameKind(d) => names.push(d.0.to_uppercase()),
        Node::NamedFunctionKind { name, args, .. } => {
            names.push(name.to_uppercase());
            args.iter().for_each(|a| walk(a, sheets, names));
        }
        Node::OpRangeKind { left, right } | Node::OpConcatenateKind { left, right } | Node::OpSumKind { left, right, .. } | Node::OpProductKind { left, right, .. }
        | Node::OpPowerKind { left, right } | Node::CompareKind { left, right, .. } => {
            walk(left, sheets, names);
            walk(right, sheets, names);
        }
        Node::FunctionKind { args, .. } => args.iter().for_each(|a| walk(a, sheets, names)),
        Node::LambdaDefKind { body, .. } => walk(body, sheets, names),
        Node::LambdaCallKind { lambda, args } => {
            walk(lambda, sheets, names);
            args.iter().for_each(|a| walk(a, sheets, names));
        }
        Node::ImplicitIntersection { child, .. } | Node::SpillRangeOperator { child } => walk(child, sheets, names),
        Node::UnaryKind { right, .. } => walk(right, sheets, names),
        _ => {}
    }
}

/// what the laws look at
pub fn project(um: &UserModel) -> Value {
    let m = um.get_model();
    let mut vals = Map::new(); // sid -> cell -> value (every cell)
    let mut vals_ns = Map::new(); // without formulas that read sheet names / formula text
    let mut vals_nl = Map::new(); // non-text values of formulas without locale-dependent functions
    let mut stored = Map::new(); // sid -> cell -> stored formula text
    let mut refs = vec![]; // [sid, cell, [explicit sheet names]]
    let mut uses = vec![]; // [sid, cell, [defined names used]]
    let mut vals_dup = Map::new(); // values of formulas that do not depend on the sheet they are on (no sheet-local names)
    let local_names: Vec<String> = m.workbook.defined_names.iter().filter(|d| d.sheet_id.is_some()).map(|d| d.name.to_uppercase()).collect();
    let mut order = vec![];
    let english = ironcalc_base::language::get_language("en").expect("english");
    for (si, ws) in m.workbook.worksheets.iter().enumerate() {
        let sid = ws.sheet_id.to_string();
        order.push(json!([ws.sheet_id, ws.get_name()]));
        let (mut v, mut vns, mut vnl, mut st) = (Map::new(), Map::new(), Map::new(), Map::new());
        let mut vd = Map::new();
        let mut coords: Vec<(i32, i32)> = ws.sheet_data.iter().flat_map(|(r, row)| row.keys().map(move |c| (*r, *c))).collect();
        coords.sort_unstable();
        for (r, c) in coords {
            let key = format!("R{r}C{c}");
            // the value in English, whatever the display language (errors are shown localized)
            let value = ws.cell(r, c).map(|cell| cell.value(&m.workbook.shared_strings, english)).unwrap_or(CellValue::None);
            let vj = value_json(&value);
            v.insert(key.clone(), vj.clone());
            let f = ws.cell(r, c).and_then(|cell| cell.get_formula());
            let text = f.and_then(|f| ws.shared_formulas.get(f as usize).cloned()).unwrap_or_default();
            let up = text.to_uppercase();
            vd.insert(key.clone(), vj.clone());
            if !SHEET_TEXT_FNS.iter().any(|x| up.contains(x)) {
                vns.insert(key.clone(), vj.clone());
            }
            if !matches!(value, CellValue::String(_)) && !LOCALE_FNS.iter().any(|x| up.contains(x)) {
                vnl.insert(key.clone(), vj.clone());
            }
            if let Some(f) = f {
                st.insert(key.clone(), json!(text));
                if let Some(node) = m.parsed_formulas.get(si).and_then(|l| l.get(f as usize)) {
                    let (mut s, mut n) = (vec![], vec![]);
                    walk(&node.0, &mut s, &mut n);
                    if n.iter().any(|x| local_names.contains(x)) || SHEET_TEXT_FNS.iter().any(|x| up.contains(x)) {
                        vd.remove(&key);
                    }
                    refs.push(json!([ws.sheet_id, key, s]));
                    uses.push(json!([ws.sheet_id, key, n]));
                }
            }
        }
        vals_dup.insert(sid.clone(), Value::Object(vd));
        vals.insert(sid.clone(), Value::Object(v));
        vals_ns.insert(sid.clone(), Value::Object(vns));
        vals_nl.insert(sid.clone(), Value::Object(vnl));
        stored.insert(sid, Value::Object(st));
    }
    refs.sort_by_key(|v: &Value| (v[0].as_i64().unwrap_or(0), v[1].as_str().unwrap_or("").to_string()));
    uses.sort_by_key(|v: &Value| (v[0].as_i64().unwrap_or(0), v[1].as_str().unwrap_or("").to_string()));
    // defined names as stored: [name, scope sheet id or -1, formula, [sheet names in the formula]]
    let mut names: Vec<Value> = m
        .workbook
        .defined_names
        .iter()
        .map(|d| {
            let body = d.formula.trim_start_matches('=');
            // sheet names mentioned: text before '!' of every reference (quotes removed)
            let mut sn = vec![];
            let mut rest = body;
            while let Some(p) = rest.find('!') {
                let head = &rest[..p];
                let name = if head.ends_with('\'') {
                    // walk back to the opening quote; a doubled quote is a quote inside the name
                    let h: Vec<char> = head[..head.len() - 1].chars().collect();
                    let mut i = h.len();
                    let mut open = 0;
                    while i > 0 {
                        i -= 1;
                        if h[i] == '\'' {
                            if i > 0 && h[i - 1] == '\'' {
                                i -= 1;
                            } else {
                                open = i + 1;
                                break;
                            }
                        }
                    }
                    h[open..].iter().collect::<String>().replace("''", "'")
                } else {
                    head.rsplit(|ch: char| !(ch.is_alphanumeric() || ch == '_' || ch == '.')).next().unwrap_or("").to_string()
                };
                sn.push(name);
                rest = &rest[p + 1..];
            }
            json!([d.name, d.sheet_id.map(|x| x as i64).unwrap_or(-1), d.formula, sn])
        })
        .collect();
    names.sort_by_key(|v| v.to_string());
    let cfs: Vec<Value> = m.workbook.worksheets.iter().map(|ws| serde_json::to_value(&ws.conditional_formatting).unwrap_or(Value::Null)).collect();
    json!({"order": order, "vals": vals, "vals_ns": vals_ns, "vals_nl": vals_nl, "stored": stored, "refs": refs, "uses": uses, "names": names, "cfs": cfs, "vals_dup": vals_dup})
}

fn base_workbook() -> Result<UserModel<'static>, String> {
    let mut um = UserModel::new_empty("book", "en", "UTC", "en")?;
    um.new_sheet()?;
    um.new_sheet()?;
    um.rename_sheet(1, "Data Sheet")?;
    um.rename_sheet(2, "S3")?;
    um.new_defined_name("TaxRate", None, "Sheet1!$A$2")?;
    um.new_defined_name("LocalN", Some(0), "'Data Sheet'!$A$1")?;
    um.new_defined_name("LocalN", Some(1), "Sheet1!$A$3")?;
    um.new_defined_name("Dbl", None, "=LAMBDA(x,x*2)")?;
    um.new_defined_name("Block", None, "'Data Sheet'!$A$1:$A$3")?;
    let s1 = [
        ("A1", "1.5"), ("A2", "20"), ("A3", "7"), ("A4", "-3"), ("A5", "100"),
        ("B1", "=A1*2"), ("B2", "='Data Sheet'!A1+1"), ("B3", "=SUM('Data Sheet'!A1:A3)"), ("B4", "=Missing!A1"), ("B5", "=TaxRate*A1"), ("B6", "=LocalN+1"), ("B7", "=SUM(Block)"),
        ("C1", "=IF(A1>1,\"yes\",\"no\")"), ("C2", "=TEXT(A2,\"0.00\")"), ("C3", "=A1/0"), ("C4", "=TRUE"), ("C5", "=\"x\"&A1"), ("C6", "=AND(A1>0,OR(A4>0,A5>0))"),
        ("D1", "=S3!A1+'Data Sheet'!B2"), ("D3", "=1.5+A1"), ("D4", "=ROUND(A3/3,2)"), ("D5", "=SUM(A:A)"), ("D6", "=MAX(A1:A5)-MIN(A1:A5)"), ("D7", "=NoSuchName+1"),
        ("F1", "=1+TaxRate"), ("F2", "=A1-TaxRate"), ("F3", "=TaxRate+TaxRate"), ("F4", "=-TaxRate"), ("F5", "=TaxRate^2"), ("F6", "=2^TaxRate"), ("F7", "=A1&TaxRate"),
        ("G1", "=TaxRate>1"), ("G2", "=1<TaxRate"), ("G3", "=IF(TaxRate>1,TaxRate,0)"), ("G4", "=TaxRate%"), ("G5", "=(TaxRate)*2"), ("G6", "=SUM(1,TaxRate)"), ("G7", "=Dbl(TaxRate)-Dbl(LocalN)"),
        ("E1", "=Dbl(A1)"), ("E2", "=DATE(2024,2,29)"), ("E3", "=IFERROR(C3,\"err\")"), ("E4", "='Missing Sheet'!B2:B3"), ("E5", "=LEN(C1)"), ("E6", "hello"), ("E7", "'007"),
    ];
    let s2 = [("A1", "10"), ("A2", "2.25"), ("A3", "3"), ("B2", "=Sheet1!A1+A1"), ("B3", "=LocalN*2"), ("B4", "=SUM(Sheet1!A1:A5)/COUNT(Sheet1!A1:A5)"), ("B5", "=TaxRate")];
    let s3 = [("A1", "=Sheet1!B1"), ("A2", "=SUM(Sheet1!A1:A5)"), ("A3", "='Data Sheet'!A2*S3!A1"), ("A4", "=A1&\"\"")];
    for (si, cells) in [(0u32, &s1[..]), (1, &s2[..]), (2, &s3[..])] {
        for (addr, text) in cells {
            let col = (addr.as_bytes()[0] - b'A') as i32 + 1;
            let row: i32 = addr[1..].parse().unwrap_or(1);
            um.set_user_input(si, row, col, text)?;
        }
    }
    let rule = serde_json::from_value(json!({"type": "Formula", "formula": "=$A1>TaxRate", "format": {"font": {"b": true}, "fill": null, "border": null, "num_fmt": null, "alignment": null}, "stop_if_true": false})).map_err(|e| format!("{e}"))?;
    um.add_conditional_formatting(0, "A1:A5", rule)?;
    um.evaluate();
    Ok(um)
}

pub fn run(out_dir: &str, seed: u64, runs: usize, steps: usize) -> Result<Value, String> {
    std::fs::create_dir_all(out_dir).map_err(|e| e.to_string())?;
    let mut trace = std::io::BufWriter::new(std::fs::File::create(format!("{}/frames.ndjson", out_dir)).map_err(|e| e.to_string())?);
    let mut side = std::io::BufWriter::new(std::fs::File::create(format!("{}/detail.ndjson", out_dir)).map_err(|e| e.to_string())?);
    let mut it = Interner::default();
    let mut line_no = 0usize;
    let mut kinds: std::collections::BTreeMap<String, usize> = Default::default();
    let mut n_ops = 0usize;
    for run in 0..runs {
        let mut rng = StdRng::seed_from_u64(seed.wrapping_mul(9_000_011).wrapping_add(run as u64));
        let mut um = base_workbook()?;
        writeln!(trace, "{}", json!({"ev": "reset"})).ok();
        line_no += 1;
        let mut program: Vec<Value> = vec![];
        for _ in 0..steps {
            let nsheets = um.get_model().workbook.worksheets.len() as u32;
            let before = project(&um);
            let x: u32 = rng.gen_range(0..100);
            // (action name, arguments for the law, result)
            let (act, args, res): (&str, Value, Result<(), String>) = if x < 22 {
                let l = LANGS[rng.gen_range(0..LANGS.len())];
                ("set_lang", json!({"v": l}), um.set_language(l))
            } else if x < 40 {
                let l = LOCALES[rng.gen_range(0..LOCALES.len())];
                ("set_locale", json!({"v": l}), um.set_locale(l))
            } else if x < 55 {
                let s = rng.gen_range(0..nsheets);
                let old = um.get_model().workbook.worksheets[s as usize].get_name();
                let new = NEW_NAMES[rng.gen_range(0..NEW_NAMES.len())];
                ("rename_sheet", json!({"old": old, "new": new}), um.rename_sheet(s, new))
            } else if x < 65 {
                let (s, t) = (rng.gen_range(0..nsheets), rng.gen_range(0..nsheets));
                ("move_sheet", json!({"s": s, "to": t}), um.move_sheet(s, t))
            } else if x < 72 && nsheets < 6 {
                let s = rng.gen_range(0..nsheets);
                let sid = um.get_model().workbook.worksheets[s as usize].sheet_id;
                let r = um.duplicate_sheet(s);
                let new_sid = um.get_model().workbook.worksheets.get(s as usize + 1).map(|w| w.sheet_id).unwrap_or(0);
                ("dup_sheet", json!({"src": sid, "new": new_sid}), r)
            } else if x < 78 && nsheets > 2 {
                let s = rng.gen_range(0..nsheets);
                let ws = &um.get_model().workbook.worksheets[s as usize];
                let (sid, name) = (ws.sheet_id, ws.get_name());
                ("del_sheet", json!({"sid": sid, "name": name}), um.delete_sheet(s))
            } else if x < 86 {
                // rename a defined name (same scope, same formula)
                let list = um.get_defined_name_list();
                if list.is_empty() {
                    ("noop", json!({}), Ok(()))
                } else {
                    let (name, scope, formula) = list[rng.gen_range(0..list.len())].clone();
                    let new = format!("{}_{}", name, rng.gen_range(0..9));
                    let r = um.update_defined_name(&name, scope, &new, scope, &formula);
                    let scope_sid: i64 = scope.and_then(|i| um.get_model().workbook.worksheets.get(i as usize).map(|w| w.sheet_id as i64)).unwrap_or(-1);
                    let shadow: Vec<u32> = um.get_model().workbook.defined_names.iter().filter(|d| d.name.to_uppercase() == name.to_uppercase()).filter_map(|d| d.sheet_id).collect();
                    ("rename_name", json!({"old": name.to_uppercase(), "new": new.to_uppercase(), "scope": scope_sid, "shadow": shadow}), r)
                }
            } else if x < 94 {
                // cross-language re-entry: what the editor shows now, typed back
                let s = rng.gen_range(0..nsheets);
                let ws = &um.get_model().workbook.worksheets[s as usize];
                let mut formulas: Vec<(i32, i32)> = ws.sheet_data.iter().flat_map(|(r, row)| row.iter().filter(|(_, c)| c.get_formula().is_some()).map(move |(c, _)| (*r, *c))).collect();
                formulas.sort_unstable();
                if formulas.is_empty() {
                    ("noop", json!({}), Ok(()))
                } else {
                    let (r, c) = formulas[rng.gen_range(0..formulas.len())];
                    let text = um.get_model().get_localized_cell_content(s, r, c).unwrap_or_default();
                    ("retype", json!({"s": s, "r": r, "c": c, "text": text}), um.set_user_input(s, r, c, &text))
                }
            } else if x < 97 {
                let bytes = um.to_bytes();
                let lang: &'static str = Box::leak(um.get_language().into_boxed_str());
                match UserModel::from_bytes(&bytes, lang) {
                    Ok(u) => {
                        um = u;
                        ("reload", json!({}), Ok(()))
                    }
                    Err(e) => ("reload", json!({}), Err(e)),
                }
            } else {
                match crate::xlsxrt::roundtrip(&um) {
                    Ok(u) => {
                        let lang = um.get_language();
                        um = u;
                        let _ = um.set_language(&lang);
                        ("xlsx", json!({}), Ok(()))
                    }
                    Err(e) => ("xlsx", json!({}), Err(e)),
                }
            };
            n_ops += 1;
            program.push(json!({"act": act, "args": args}));
            if act == "noop" {
                continue;
            }
            um.evaluate();
            let after = project(&um);
            *kinds.entry(format!("{act}:{}", if res.is_ok() { "ok" } else { "err" })).or_insert(0) += 1;
            let ids = |p: &Value, it: &mut Interner| {
                let mut m = Map::new();
                for k in ["vals", "vals_ns", "vals_nl", "stored", "names", "cfs"] {
                    m.insert(k.to_string(), json!(it.id(&p[k])));
                }
                // per-sheet ids, for the laws that speak about some sheets only
                let mut per = Map::new();
                for (sid, v) in p["vals_ns"].as_object().cloned().unwrap_or_default() {
                    per.insert(sid.clone(), json!({"vals_ns": it.id(&v), "stored": it.id(&p["stored"][&sid]), "vals_dup": it.id(&p["vals_dup"][&sid])}));
                }
                m.insert("sheets".into(), Value::Object(per));
                m.insert("refs".into(), p["refs"].clone());
                m.insert("uses".into(), p["uses"].clone());
                m.insert("names_data".into(), p["names"].clone());
                m.insert("order".into(), p["order"].clone());
                Value::Object(m)
            };
            writeln!(trace, "{}", json!({"ev": act, "ok": res.is_ok(), "args": args, "before": ids(&before, &mut it), "after": ids(&after, &mut it)})).ok();
            line_no += 1;
            // report material: every difference of the opaque components
            let mut diff = Map::new();
            for k in ["vals", "vals_ns", "vals_nl", "stored", "names", "cfs"] {
                if before[k] != after[k] {
                    let mut ds = vec![];
                    crate::project::all_diffs(&before[k], &after[k], String::new(), &mut ds, 12);
                    diff.insert(k.to_string(), json!(ds));
                }
            }
            if act == "dup_sheet" {
                let (src, new) = (args["src"].to_string(), args["new"].to_string());
                let mut ds = vec![];
                crate::project::all_diffs(&after["vals_dup"][&src], &after["vals_dup"][&new], String::new(), &mut ds, 12);
                if !ds.is_empty() {
                    diff.insert("copy_vs_source".to_string(), json!(ds));
                }
            }
            writeln!(side, "{}", json!({"l": line_no, "run": run, "program": program, "diff": diff, "err": res.clone().err(), "lang": um.get_language(), "locale": um.get_locale()})).ok();
            // after a switch, everything stored is read again (as opening the file would): still the same workbook
            if (act == "set_lang" || act == "set_locale") && res.is_ok() {
                let lang: &'static str = Box::leak(um.get_language().into_boxed_str());
                if let Ok(mut u) = UserModel::from_bytes(&um.to_bytes(), lang) {
                    u.evaluate();
                    let reread = project(&u);
                    *kinds.entry("reparse:ok".to_string()).or_insert(0) += 1;
                    writeln!(trace, "{}", json!({"ev": "reparse", "ok": true, "args": args, "before": ids(&after, &mut it), "after": ids(&reread, &mut it)})).ok();
                    line_no += 1;
                    let mut diff = Map::new();
                    for k in ["vals", "stored", "names", "cfs"] {
                        if after[k] != reread[k] {
                            let mut ds = vec![];
                            crate::project::all_diffs(&after[k], &reread[k], String::new(), &mut ds, 12);
                            diff.insert(k.to_string(), json!(ds));
                        }
                    }
                    let mut prog2 = program.clone();
                    prog2.push(json!({"act": "reparse", "args": {}}));
                    writeln!(side, "{}", json!({"l": line_no, "run": run, "program": prog2, "diff": diff, "lang": um.get_language(), "locale": um.get_locale()})).ok();
                }
            }
        }
    }
    trace.flush().ok();
    side.flush().ok();
    Ok(json!({"runs": runs, "ops": n_ops, "kinds": kinds}))
}
