//! C24: xlsx export -> import is a stuttering step of the workbook (Xlsx.tla / TraceXlsx.tla).
//! Random catalogue histories (the generator of the history family plus re-entry sensitive and
//! Unicode / XML-special strings); at checkpoints the model is exported with
//! save_xlsx_to_writer, imported with load_from_xlsx_bytes + Model::from_workbook, evaluated,
//! and the statement's components are projected from both and logged as interned ids.  TLC
//! decides equality per component; the diff text only serves the report.

use crate::gen::Gen;
use crate::project::{self, first_diff, Interner};
use ironcalc::export::save_xlsx_to_writer;
use ironcalc::import::load_from_xlsx_bytes;
use ironcalc_base::{Model, UserModel};
use rand::rngs::StdRng;
use rand::{Rng, SeedableRng};
use serde_json::{json, Map, Value};
use std::io::{Cursor, Write};

pub const COMPONENTS: [&str; 9] = ["sheets", "cells", "styles", "rows", "cols", "panes", "names", "links", "cfs"];

/// the statement's components out of the canonical document projection
pub fn components(um: &UserModel) -> Map<String, Value> {
    let d = project::doc(um);
    let mut out = Map::new();
    let sheets = d["sheets"].as_array().cloned().unwrap_or_default();
    out.insert("sheets".into(), Value::Array(sheets.iter().map(|s| json!({"name": s["name"], "state": s["state"], "color": s["color"]})).collect()));
    let mut cells = vec![];
    let mut styles = vec![];
    for s in &sheets {
        let mut cm = Map::new();
        let mut sm = Map::new();
        for (k, c) in s["cells"].as_object().cloned().unwrap_or_default() {
            // an empty cell is only its style
            if c["content"] != "" {
                cm.insert(k.clone(), json!({"content": c["content"], "t": c["t"], "v": c["v"], "arr": c["arr"]}));
            }
            sm.insert(k, json!({"style": c["style"], "fmt": c["fmt"]}));
        }
        cells.push(Value::Object(cm));
        styles.push(Value::Object(sm));
    }
    out.insert("cells".into(), Value::Array(cells));
    out.insert("styles".into(), Value::Array(styles));
    out.insert("rows".into(), Value::Array(sheets.iter().map(|s| s["rows"].clone()).collect()));
    out.insert("cols".into(), Value::Array(sheets.iter().map(|s| s["cols"].clone()).collect()));
    out.insert("panes".into(), Value::Array(sheets.iter().map(|s| json!({"fr": s["fr"], "fc": s["fc"], "grid": s["grid"]})).collect()));
    out.insert("names".into(), d["names"].clone());
    out.insert("links".into(), Value::Array(sheets.iter().map(|s| s["links"].clone()).collect()));
    // conditional formats: the priority numbers are only an order (the importer renumbers them from 1)
    let cfs: Vec<Value> = sheets
        .iter()
        .map(|s| {
            let list = s["cfs"].as_array().cloned().unwrap_or_default();
            let mut prios: Vec<i64> = list.iter().map(|c| c["priority"].as_i64().unwrap_or(0)).collect();
            prios.sort_unstable();
            Value::Array(
                list.iter()
                    .map(|c| {
                        let mut c = c.clone();
                        let rank = prios.iter().position(|p| *p == c["priority"].as_i64().unwrap_or(0)).unwrap_or(0) + 1;
                        c["priority"] = json!(rank);
                        c
                    })
                    .collect(),
            )
        })
        .collect();
    out.insert("cfs".into(), Value::Array(cfs));
    out
}

const SPECIALS: [&str; 28] = [
    "a<b>&\"c'", "  leading and trailing  ", "line1\nline2", "tab\there", "\u{1}ctl", "_x000D_", "_x0041_", "caf\u{e9} \u{4f60}\u{597d} \u{1f600}", "'007", "'TRUE", "'=A1",
    "1e3", "0.1234567890123456", "123456789012345678", "2024-02-29", "12:30", "50%", "$1,234.50", "TRUE", "#DIV/0!", "#N/A", "https://a.b/c?d=e&f=g", "=\"x\"&CHAR(10)&\"y\"", "=1/3",
    "=SEQUENCE(2,2)", "=IF(A1>0,\"<\",\"&\")", "]]>", "\u{feff}bom",
];

pub fn roundtrip(um: &UserModel) -> Result<UserModel<'static>, String> {
    let w = save_xlsx_to_writer(um.get_model(), Cursor::new(Vec::new())).map_err(|e| format!("export: {e:?}"))?;
    let bytes = w.into_inner();
    let wb = load_from_xlsx_bytes(&bytes, &um.get_name(), &um.get_locale(), &um.get_timezone()).map_err(|e| format!("import: {e:?}"))?;
    let mut model = Model::from_workbook(wb, "en").map_err(|e| format!("from_workbook: {e}"))?;
    model.evaluate();
    Ok(UserModel::from_model(model))
}

pub fn run(out_dir: &str, seed: u64, runs: usize, steps: usize, every: usize) -> Result<Value, String> {
    std::fs::create_dir_all(out_dir).map_err(|e| e.to_string())?;
    let mut trace = std::io::BufWriter::new(std::fs::File::create(format!("{}/xlsx.ndjson", out_dir)).map_err(|e| e.to_string())?);
    let mut progs = std::io::BufWriter::new(std::fs::File::create(format!("{}/prog.ndjson", out_dir)).map_err(|e| e.to_string())?);
    let mut it = Interner::default();
    let (mut n_rt, mut n_ops, mut n_fail) = (0usize, 0usize, 0usize);
    let mut kinds: std::collections::BTreeSet<String> = Default::default();
    for run in 0..runs {
        let mut rng = StdRng::seed_from_u64(seed.wrapping_mul(7_000_003).wrapping_add(run as u64));
        let mut g = Gen { rng: StdRng::seed_from_u64(rng.gen()), win: if run % 2 == 0 { 5 } else { 8 }, max_sheets: 4, with_lang: false, with_nav: false, edge: false, calm: run % 2 == 1 };
        let mut um = UserModel::new_empty("book", "en", "UTC", "en")?;
        writeln!(trace, "{}", json!({"ev": "reset", "run": run})).ok();
        let mut program: Vec<Value> = vec![];
        for step in 0..steps {
            let a = if rng.gen_bool(0.2) {
                let nsheets = um.get_model().workbook.worksheets.len() as u32;
                json!({"op": "input", "s": rng.gen_range(0..nsheets), "r": rng.gen_range(1..=6), "c": rng.gen_range(1..=6), "text": SPECIALS[rng.gen_range(0..SPECIALS.len())]})
            } else if rng.gen_bool(0.05) {
                json!({"op": "undo"})
            } else {
                g.valid(&um)
            };
            let res = crate::ops::apply(&mut um, &a);
            n_ops += 1;
            if res.tag() == "ok" {
                kinds.insert(a["op"].as_str().unwrap_or("").to_string());
            }
            program.push(a.clone());
            writeln!(trace, "{}", json!({"ev": "edit", "run": run, "step": step, "op": a["op"], "res": res.tag()})).ok();
            if (step + 1) % every == 0 || step + 1 == steps {
                um.evaluate();
                let before = components(&um);
                let after = match std::panic::catch_unwind(std::panic::AssertUnwindSafe(|| roundtrip(&um))) {
                    Ok(Ok(u)) => Some(components(&u)),
                    Ok(Err(e)) => {
                        n_fail += 1;
                        writeln!(trace, "{}", json!({"ev": "rtfail", "run": run, "step": step, "err": e, "pidx": run})).ok();
                        None
                    }
                    Err(p) => {
                        n_fail += 1;
                        let msg = p.downcast_ref::<String>().cloned().or_else(|| p.downcast_ref::<&str>().map(|s| s.to_string())).unwrap_or_default();
                        let loc = crate::ops::last_panic_location();
                        writeln!(trace, "{}", json!({"ev": "rtfail", "run": run, "step": step, "err": format!("panic: {msg} @ {loc}"), "pidx": run})).ok();
                        None
                    }
                };
                if let Some(after) = after {
                    n_rt += 1;
                    let mut b = Map::new();
                    let mut af = Map::new();
                    let mut diffs = Map::new();
                    for c in COMPONENTS {
                        let (x, y) = (&before[c], &after[c]);
                        b.insert(c.to_string(), json!(it.id(x)));
                        af.insert(c.to_string(), json!(it.id(y)));
                        if x != y {
                            let mut ds = vec![];
                            project::all_diffs(x, y, String::new(), &mut ds, 24);
                            if ds.is_empty() {
                                ds.push(first_diff(x, y, String::new()).unwrap_or_default());
                            }
                            if c == "cells" || c == "styles" {
                                // what the cell showed before, to tell a re-read unparsable formula from a changed one
                                for d in ds.iter_mut() {
                                    let path = d.split('\t').next().unwrap_or("").to_string();
                                    let mut parts = path.trim_start_matches('[').splitn(2, "].");
                                    let si: usize = parts.next().unwrap_or("0").parse().unwrap_or(0);
                                    let key = parts.next().unwrap_or("").split('.').next().unwrap_or("").to_string();
                                    *d = format!("{d}\tfmt_before={}", before["styles"][si][&key]["fmt"].as_str().unwrap_or(""));
                                }
                            }
                            diffs.insert(c.to_string(), json!(ds));
                        }
                    }
                    writeln!(trace, "{}", json!({"ev": "xlsx", "run": run, "step": step, "before": b, "after": af, "diff": diffs, "plen": program.len()})).ok();
                }
            }
        }
        writeln!(progs, "{}", json!({"run": run, "seed": seed, "program": program})).ok();
    }
    trace.flush().ok();
    progs.flush().ok();
    Ok(json!({"runs": runs, "ops": n_ops, "roundtrips": n_rt, "roundtrip_failures": n_fail, "op_kinds": kinds.len()}))
}

/// diagnostics: apply one program, round trip at the end, print every difference
pub fn replay_one(path: &str) -> Result<Value, String> {
    let p: Value = serde_json::from_str(&std::fs::read_to_string(path).map_err(|e| e.to_string())?).map_err(|e| e.to_string())?;
    let mut um = UserModel::new_empty("book", "en", "UTC", "en")?;
    for a in p["program"].as_array().cloned().unwrap_or_default() {
        crate::ops::apply(&mut um, &a);
    }
    um.evaluate();
    let before = components(&um);
    let after = components(&roundtrip(&um)?);
    let mut out = vec![];
    for c in COMPONENTS {
        let mut ds = vec![];
        project::all_diffs(&before[c], &after[c], c.to_string(), &mut ds, 50);
        out.extend(ds);
    }
    Ok(json!({"diffs": out}))
}
