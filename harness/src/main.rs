fn main(){ let m = ironcalc_base::UserModel::new_empty("x","en","UTC","en").unwrap(); println!("{:?}", m.verif_history_depths()); println!("{}", ironcalc_base::Function::into_iter().count()); }
