mod behreplay;
mod cases;
mod formula;
mod frames;
mod gen;
mod histrec;
mod ops;
mod project;
mod recalc;
mod reentry;
mod valuecheck;
mod structural;
mod world;
mod xlsxfaults;
mod xlsxrt;

use serde_json::{json, Value};
use std::collections::HashMap;

fn args_map() -> (String, HashMap<String, String>) {
    let mut it = std::env::args().skip(1);
    let cmd = it.next().unwrap_or_default();
    let mut m = HashMap::new();
    let rest: Vec<String> = it.collect();
    let mut i = 0;
    while i < rest.len() {
        let k = rest[i].trim_start_matches("--").to_string();
        if i + 1 < rest.len() && !rest[i + 1].starts_with("--") {
            m.insert(k, rest[i + 1].clone());
            i += 2;
        } else {
            m.insert(k, "true".to_string());
            i += 1;
        }
    }
    (cmd, m)
}

fn geti(m: &HashMap<String, String>, k: &str, d: i64) -> i64 {
    m.get(k).and_then(|v| v.parse().ok()).unwrap_or(d)
}
fn gets(m: &HashMap<String, String>, k: &str, d: &str) -> String {
    m.get(k).cloned().unwrap_or(d.to_string())
}
fn getb(m: &HashMap<String, String>, k: &str) -> bool {
    m.contains_key(k)
}

fn main() {
    ops::quiet_panics();
    let (cmd, m) = args_map();
    let out: Result<Value, String> = match cmd.as_str() {
        "histrec" => histrec::record(&histrec::RecCfg {
            seed: geti(&m, "seed", 1) as u64,
            runs: geti(&m, "runs", 10) as usize,
            steps: geti(&m, "steps", 100) as usize,
            out_dir: gets(&m, "out", "/tmp/icverif"),
            with_nav: getb(&m, "nav"),
            with_lang: getb(&m, "lang"),
            edge: getb(&m, "edge"),
            p_invalid: m.get("pinvalid").and_then(|v| v.parse().ok()).unwrap_or(0.12),
            nav_heavy: getb(&m, "navheavy"),
            calm: getb(&m, "calm"),
        }),
        "behreplay" => behreplay::replay(&gets(&m, "family", ""), &gets(&m, "in", ""), &gets(&m, "out", "/tmp/icverif"), geti(&m, "limit", 0) as usize),
        "calendar" => cases::calendar(&gets(&m, "in", ""), &gets(&m, "out", "/tmp/icverif"), getb(&m, "thorough")),
        "grid" => cases::grid(&gets(&m, "in", ""), &gets(&m, "out", "/tmp/icverif")),
        "langdump" => cases::langdump(&gets(&m, "out", "/tmp/icverif")),
        "f4" => cases::f4(&gets(&m, "in", ""), &gets(&m, "out", "/tmp/icverif")),
        "numinput" => cases::numinput(&gets(&m, "in", ""), &gets(&m, "out", "/tmp/icverif")),
        "numformat" => cases::numformat(&gets(&m, "in", ""), &gets(&m, "out", "/tmp/icverif")),
        "formula" => formula::run(&gets(&m, "in", ""), &gets(&m, "out", "/tmp/icverif"), getb(&m, "thorough"), geti(&m, "seed", 1) as u64),
        "colattrs" => behreplay::replay_colattrs(&gets(&m, "in", ""), &gets(&m, "out", "/tmp/icverif")),
        "reentryvocab" => reentry::vocab_size(),
        "reentry" => reentry::run(&gets(&m, "in", ""), &gets(&m, "out", "/tmp/icverif"), &gets(&m, "pairs", "en/en")),
        "frames" => frames::run(&gets(&m, "out", "/tmp/icverif"), geti(&m, "seed", 1) as u64, geti(&m, "runs", 10) as usize, geti(&m, "steps", 25) as usize),
        "recalc" => recalc::run(&gets(&m, "in", ""), &gets(&m, "out", "/tmp/icverif"), geti(&m, "n", 4)),
        "value" => valuecheck::run(&gets(&m, "in", ""), &gets(&m, "out", "/tmp/icverif")),
        "xlsxrt1" => xlsxrt::replay_one(&gets(&m, "in", "")),
        "xlsxrt" => xlsxrt::run(&gets(&m, "out", "/tmp/icverif"), geti(&m, "seed", 1) as u64, geti(&m, "runs", 10) as usize, geti(&m, "steps", 40) as usize, geti(&m, "every", 8) as usize),
        "structural" => structural::replay(&gets(&m, "in", ""), &gets(&m, "out", "/tmp/icverif"), &gets(&m, "prop", "")),
        "styles" => behreplay::replay_styles(&gets(&m, "in", ""), &gets(&m, "out", "/tmp/icverif")),
        "tokens" => cases::tokens(&gets(&m, "in", ""), &gets(&m, "out", "/tmp/icverif"), getb(&m, "thorough"), geti(&m, "skip", 0) as usize),
        "finite" => cases::finite(&gets(&m, "in", ""), &gets(&m, "out", "/tmp/icverif"), getb(&m, "thorough"), geti(&m, "skip", 0) as usize),
        "evalone" => cases::evalone(&gets(&m, "f", "")),
        "xlsxvocab" => xlsxfaults::vocab(&gets(&m, "out", "/tmp/icverif")),
        "xlsxfaults" => xlsxfaults::run(&gets(&m, "in", ""), &gets(&m, "out", "/tmp/icverif"), geti(&m, "skip", 0) as usize, geti(&m, "seed", 1) as u64),
        "runprog" => histrec::run_program(&gets(&m, "in", ""), &gets(&m, "out", "/tmp/icverif")),
        "histbeh" => histrec::replay_behaviours(
            &gets(&m, "in", ""),
            &gets(&m, "out", "/tmp/icverif"),
            geti(&m, "k", 2) as usize,
            geti(&m, "seed", 1) as u64,
            geti(&m, "limit", 0) as usize,
        ),
        _ => Err(format!("unknown command '{cmd}'")),
    };
    match out {
        Ok(v) => {
            println!("{}", json!({"ok": true, "result": v}));
        }
        Err(e) => {
            eprintln!("icverif error: {e}");
            std::process::exit(2);
        }
    }
}
