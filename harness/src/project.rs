//! The projection: the single abstraction function from the real engine state onto the
//! variables of the TLA+ specifications (DESIGN.md 2.2).  Only public API and the public
//! `workbook` value are read.  Everything is canonical: sorted, 15 significant digits,
//! no pool indices, no hash-map order.

use ironcalc_base::cell::CellValue;
use ironcalc_base::types::{Cell, CellType, Style};
use ironcalc_base::{Model, UserModel};
use serde_json::{json, Map, Value};
use std::collections::HashMap;

pub const LAST_ROW: i32 = 1_048_576;
pub const LAST_COLUMN: i32 = 16_384;
pub const DEFAULT_ROW_HEIGHT: f64 = 25.0;
pub const DEFAULT_COLUMN_WIDTH: f64 = 90.0;

/// 15 significant digits, canonical text (TLC has no reals: numbers travel as strings).
pub fn num15(x: f64) -> String {
    if x.is_nan() {
        return "nan".to_string();
    }
    if x.is_infinite() {
        return if x > 0.0 { "inf".to_string() } else { "-inf".to_string() };
    }
    if x == 0.0 {
        return "0".to_string();
    }
    let s = format!("{:.14e}", x);
    // normalise mantissa: strip trailing zeros
    let (m, e) = s.split_once('e').unwrap();
    let m = if m.contains('.') {
        m.trim_end_matches('0').trim_end_matches('.')
    } else {
        m
    };
    format!("{}e{}", m, e)
}

pub fn num_class(x: f64) -> &'static str {
    if x.is_nan() {
        "nan"
    } else if x.is_infinite() {
        if x > 0.0 {
            "+inf"
        } else {
            "-inf"
        }
    } else {
        "finite"
    }
}

pub fn cell_type_name(t: &CellType) -> &'static str {
    match t {
        CellType::Number => "num",
        CellType::Text => "text",
        CellType::LogicalValue => "bool",
        CellType::ErrorValue => "err",
        CellType::Array => "array",
        CellType::CompoundData => "compound",
    }
}

pub fn value_json(v: &CellValue) -> Value {
    match v {
        CellValue::None => Value::Null,
        CellValue::String(s) => json!({ "s": s }),
        CellValue::Number(n) => json!({ "n": num15(*n) }),
        CellValue::Boolean(b) => json!({ "b": b }),
    }
}

pub fn style_json(s: &Style) -> Value {
    serde_json::to_value(s).unwrap_or(Value::Null)
}

/// The style a row contributes to its cells: the engine applies a row's style only when the
/// row record is marked `custom_format` (see `get_cell_style_index`); `get_row_style` alone would
/// report the mere existence of a row record, which is representation, not behaviour.
pub fn effective_row_style(model: &Model, sheet: u32, row: i32) -> Option<Style> {
    let ws = model.workbook.worksheet(sheet).ok()?;
    let rec = ws.rows.iter().find(|r| r.r == row)?;
    if !rec.custom_format {
        return None;
    }
    model.get_row_style(sheet, row).ok().flatten()
}

fn fallback_style(model: &Model, sheet: u32, row: i32, col: i32) -> Style {
    if let Some(s) = effective_row_style(model, sheet, row) {
        return s;
    }
    if let Ok(Some(s)) = model.get_column_style(sheet, col) {
        return s;
    }
    Style::default()
}

/// One cell as observed through the getters.
/// A getter of the engine that panics on a cell (e.g. a cell pointing at a formula that does not exist) is
/// data, not the end of the run: the cell is projected as such and the structural check (C27) names the cause.
pub fn cell_json(um: &UserModel, sheet: u32, row: i32, col: i32) -> Value {
    match std::panic::catch_unwind(std::panic::AssertUnwindSafe(|| cell_json_inner(um, sheet, row, col))) {
        Ok(v) => v,
        Err(_) => json!({"r": row, "c": col, "content": "<getter panicked>", "t": "?", "v": null, "fmt": "<getter panicked>", "style": null, "arr": null}),
    }
}

fn cell_json_inner(um: &UserModel, sheet: u32, row: i32, col: i32) -> Value {
    let model = um.get_model();
    let content = model
        .get_localized_cell_content(sheet, row, col)
        .unwrap_or_else(|e| format!("<err:{e}>"));
    let ty = model
        .get_cell_type(sheet, row, col)
        .map(|t| cell_type_name(&t))
        .unwrap_or("?");
    let val = model
        .get_cell_value_by_index(sheet, row, col)
        .map(|v| value_json(&v))
        .unwrap_or(Value::Null);
    let fmt = model
        .get_formatted_cell_value(sheet, row, col)
        .unwrap_or_else(|e| format!("<err:{e}>"));
    let style = model
        .get_style_for_cell(sheet, row, col)
        .map(|s| style_json(&s))
        .unwrap_or(Value::Null);
    let arr = um
        .get_cell_array_structure(sheet, row, col)
        .map(|a| serde_json::to_value(a).unwrap_or(Value::Null))
        .unwrap_or(Value::Null);
    json!({"r": row, "c": col, "content": content, "t": ty, "v": val, "fmt": fmt, "style": style, "arr": arr})
}

fn is_plain_empty(model: &Model, sheet: u32, row: i32, col: i32, cell: &Cell) -> bool {
    if let Cell::EmptyCell { .. } = cell {
        // an empty cell whose style is what an absent cell would report is unobservable
        match model.get_style_for_cell(sheet, row, col) {
            Ok(st) => st == fallback_style(model, sheet, row, col),
            Err(_) => false,
        }
    } else {
        false
    }
}

/// Column attributes as maximal runs: [min, max, width, hidden, style|null]
pub fn col_runs(model: &Model, sheet: u32) -> Vec<Value> {
    let ws = match model.workbook.worksheet(sheet) {
        Ok(w) => w,
        Err(_) => return vec![],
    };
    let mut bps: Vec<i32> = vec![1, LAST_COLUMN + 1];
    for c in &ws.cols {
        bps.push(c.min.clamp(1, LAST_COLUMN + 1));
        bps.push((c.max.saturating_add(1)).clamp(1, LAST_COLUMN + 1));
    }
    bps.sort_unstable();
    bps.dedup();
    let mut runs: Vec<(i32, i32, Value)> = vec![];
    for w in bps.windows(2) {
        let (a, b) = (w[0], w[1] - 1);
        if a > b {
            continue;
        }
        let width = model.get_column_width(sheet, a).map(num15).unwrap_or("?".into());
        let hidden = model.is_column_hidden(sheet, a).unwrap_or(false);
        let style = model
            .get_column_style(sheet, a)
            .ok()
            .flatten()
            .map(|s| style_json(&s))
            .unwrap_or(Value::Null);
        let attrs = json!([width, hidden, style]);
        if let Some(last) = runs.last_mut() {
            if last.1 + 1 == a && last.2 == attrs {
                last.1 = b;
                continue;
            }
        }
        runs.push((a, b, attrs));
    }
    let default = json!([num15(DEFAULT_COLUMN_WIDTH), false, Value::Null]);
    runs.into_iter()
        .filter(|r| r.2 != default)
        .map(|(a, b, attrs)| json!([a, b, attrs[0], attrs[1], attrs[2]]))
        .collect()
}

pub fn row_attrs(model: &Model, sheet: u32) -> Value {
    let ws = match model.workbook.worksheet(sheet) {
        Ok(w) => w,
        Err(_) => return Value::Null,
    };
    let mut rs: Vec<i32> = ws.rows.iter().map(|r| r.r).collect();
    rs.sort_unstable();
    rs.dedup();
    let mut out = Map::new();
    for r in rs {
        let h = model.get_row_height(sheet, r).map(num15).unwrap_or("?".into());
        let hidden = model.is_row_hidden(sheet, r).unwrap_or(false);
        let style = effective_row_style(model, sheet, r)
            .map(|s| style_json(&s))
            .unwrap_or(Value::Null);
        if h == num15(DEFAULT_ROW_HEIGHT) && !hidden && style.is_null() {
            continue;
        }
        out.insert(format!("{r}"), json!({"height": h, "hidden": hidden, "style": style}));
    }
    Value::Object(out)
}

pub fn sheet_json(um: &UserModel, sheet: u32) -> Value {
    let model = um.get_model();
    let ws = match model.workbook.worksheet(sheet) {
        Ok(w) => w,
        Err(_) => return Value::Null,
    };
    let mut coords: Vec<(i32, i32)> = vec![];
    for (r, row) in &ws.sheet_data {
        for (c, cell) in row {
            if !is_plain_empty(model, sheet, *r, *c, cell) {
                coords.push((*r, *c));
            }
        }
    }
    coords.sort_unstable();
    // keyed maps (not lists) so that a difference names the cell, not a list position
    let mut cells = Map::new();
    for (r, c) in coords.iter() {
        cells.insert(format!("R{r}C{c}"), cell_json(um, sheet, *r, *c));
    }
    let mut links = Map::new();
    for l in um.get_links_list(sheet).unwrap_or_default().iter() {
        links.insert(format!("R{}C{}", l.row, l.column), serde_json::to_value(l).unwrap_or(Value::Null));
    }
    let cfs: Vec<Value> = um
        .get_conditional_formatting_list(sheet)
        .unwrap_or_default()
        .iter()
        .map(|l| serde_json::to_value(l).unwrap_or(Value::Null))
        .collect();
    json!({
        "name": ws.get_name(),
        "id": ws.sheet_id,
        "state": ws.state.to_string(),
        "color": serde_json::to_value(&ws.color).unwrap_or(Value::Null),
        "fr": ws.frozen_rows,
        "fc": ws.frozen_columns,
        "grid": ws.show_grid_lines,
        "cells": cells,
        "rows": row_attrs(model, sheet),
        "cols": col_runs(model, sheet),
        "links": links,
        "cfs": cfs,
    })
}

/// Everything C01 lists as observable, minus per-user view state.
pub fn doc(um: &UserModel) -> Value {
    let model = um.get_model();
    let n = model.workbook.worksheets.len() as u32;
    let sheets: Vec<Value> = (0..n).map(|s| sheet_json(um, s)).collect();
    let mut names: Vec<Value> = um
        .get_defined_name_list()
        .into_iter()
        .map(|(n, s, f)| json!([n, s, f]))
        .collect();
    names.sort_by_key(|v| v.to_string());
    let mut inames: Vec<Value> = model
        .workbook
        .defined_names
        .iter()
        .map(|d| json!([d.name, d.sheet_id, d.formula]))
        .collect();
    inames.sort_by_key(|v| v.to_string());
    let mut nstyles: Vec<Value> = um
        .get_named_style_list()
        .into_iter()
        .map(|name| {
            let st = um.get_named_style(&name).map(|s| style_json(&s)).unwrap_or(Value::Null);
            let inc = um
                .get_named_style_includes(&name)
                .map(|i| serde_json::to_value(i).unwrap_or(Value::Null))
                .unwrap_or(Value::Null);
            json!([name, st, inc])
        })
        .collect();
    nstyles.sort_by_key(|v| v[0].to_string());
    json!({
        "name": um.get_name(),
        "locale": um.get_locale(),
        "tz": um.get_timezone(),
        "theme": serde_json::to_value(um.get_theme()).unwrap_or(Value::Null),
        "names": names,
        "inames": inames,
        "nstyles": nstyles,
        "sheets": sheets,
    })
}

/// Raw selection state (not through `get_selected_view`, which masks a dangling sheet index).
pub fn view(um: &UserModel) -> Value {
    let wb = &um.get_model().workbook;
    let n = wb.worksheets.len();
    let sheet = wb.views.get(&0).map(|v| v.sheet as i64).unwrap_or(-1);
    let mut per_sheet = vec![];
    for ws in &wb.worksheets {
        match ws.views.get(&0) {
            Some(v) => per_sheet.push(json!({"row": v.row, "col": v.column, "range": v.range, "state": ws.state.to_string()})),
            None => per_sheet.push(json!({"row": 0, "col": 0, "range": [0,0,0,0], "state": ws.state.to_string()})),
        }
    }
    json!({"sheet": sheet, "n": n, "sheets": per_sheet})
}

pub fn hist(um: &UserModel) -> Value {
    let (u, r, q) = um.verif_history_depths();
    json!([u, r, q])
}

/// Structural facts for C27, read from the public workbook value: raw indices and pool sizes,
/// so that the well-formedness predicate itself is evaluated by TLC (WellFormed.tla).
pub fn wf(model: &Model) -> Value {
    let wb = &model.workbook;
    let n_xfs = wb.styles.cell_xfs.len() as i64;
    let n_ss = wb.shared_strings.len() as i64;
    let sheets: Vec<Value> = wb
        .worksheets
        .iter()
        .map(|ws| {
            let nf = ws.shared_formulas.len() as i64;
            let mut cells: Vec<Value> = vec![];
            let mut anchors: Vec<Value> = vec![];
            let mut spills: Vec<Value> = vec![];
            let mut coords: Vec<(i32, i32)> = vec![];
            for (r, row) in &ws.sheet_data {
                for c in row.keys() {
                    coords.push((*r, *c));
                }
            }
            coords.sort_unstable();
            for (r, c) in coords {
                let cell = &ws.sheet_data[&r][&c];
                let s = cell.get_style() as i64;
                let (si, f): (i64, i64) = match cell {
                    Cell::SharedString { si, .. } => (*si as i64, -1),
                    Cell::CellFormula { f, .. } => (-1, *f as i64),
                    Cell::ArrayFormula { f, r: rng, kind, .. } => {
                        anchors.push(json!([r, c, rng.0, rng.1, if matches!(kind, ironcalc_base::types::ArrayKind::Dynamic) { 1 } else { 0 }]));
                        (-1, *f as i64)
                    }
                    Cell::SpillCell { a, .. } => {
                        spills.push(json!([r, c, a.0, a.1]));
                        (-1, -1)
                    }
                    _ => (-1, -1),
                };
                cells.push(json!([r, c, s, si, f]));
            }
            let cols: Vec<Value> = ws
                .cols
                .iter()
                .map(|c| json!([c.min, c.max, c.style.map(|s| s as i64).unwrap_or(-1)]))
                .collect();
            let rows: Vec<Value> = ws.rows.iter().map(|r| json!([r.r, r.s])).collect();
            let name = ws.get_name();
            let chars: Vec<String> = name.chars().map(|ch| ch.to_string()).collect();
            json!({"lname": name.to_lowercase(), "chars": chars, "id": ws.sheet_id, "nf": nf,
                   "cells": cells, "cols": cols, "rows": rows, "anchors": anchors, "spills": spills})
        })
        .collect();
    let names: Vec<Value> = wb
        .defined_names
        .iter()
        .map(|d| json!([d.name.to_lowercase(), d.sheet_id.map(|s| s as i64).unwrap_or(-1)]))
        .collect();
    json!({"nxfs": n_xfs, "nss": n_ss, "sheets": sheets, "names": names})
}

/// Interning of canonical strings into small integers (first occurrence = next integer).
#[derive(Default)]
pub struct Interner {
    map: HashMap<String, usize>,
    pub table: Vec<String>,
}

impl Interner {
    pub fn id(&mut self, v: &Value) -> usize {
        let s = v.to_string();
        if let Some(i) = self.map.get(&s) {
            return *i;
        }
        let i = self.table.len() + 1;
        self.map.insert(s.clone(), i);
        self.table.push(s);
        i
    }
    pub fn get(&self, id: usize) -> Option<&String> {
        if id == 0 {
            None
        } else {
            self.table.get(id - 1)
        }
    }
}

/// First differing path between two JSON values as "path\tkind\tdetail"
/// (kind: missing = only in `a`, extra = only in `b`, changed).
pub fn first_diff(a: &Value, b: &Value, path: String) -> Option<String> {
    fn short(v: &Value) -> String {
        let s = v.to_string();
        if s.len() > 300 {
            format!("{}...", &s[..s.char_indices().nth(300).map(|x| x.0).unwrap_or(s.len())])
        } else {
            s
        }
    }
    match (a, b) {
        (Value::Object(x), Value::Object(y)) => {
            let mut keys: Vec<&String> = x.keys().chain(y.keys()).collect();
            keys.sort();
            keys.dedup();
            for k in keys {
                match (x.get(k), y.get(k)) {
                    (Some(u), Some(v)) => {
                        if let Some(d) = first_diff(u, v, format!("{path}.{k}")) {
                            return Some(d);
                        }
                    }
                    (Some(u), None) => return Some(format!("{path}.{k}\tmissing\t{}", short(u))),
                    (None, Some(v)) => return Some(format!("{path}.{k}\textra\t{}", short(v))),
                    (None, None) => {}
                }
            }
            None
        }
        (Value::Array(x), Value::Array(y)) => {
            for i in 0..x.len().max(y.len()) {
                match (x.get(i), y.get(i)) {
                    (Some(u), Some(v)) => {
                        if let Some(d) = first_diff(u, v, format!("{path}[{i}]")) {
                            return Some(d);
                        }
                    }
                    (Some(u), None) => return Some(format!("{path}[{i}]\tmissing\t{}", short(u))),
                    (None, Some(v)) => return Some(format!("{path}[{i}]\textra\t{}", short(v))),
                    (None, None) => {}
                }
            }
            None
        }
        _ => {
            if a == b {
                None
            } else {
                Some(format!("{path}\tchanged\t{} -> {}", short(a), short(b)))
            }
        }
    }
}

/// Every differing leaf (up to `limit`) between two JSON values, each as "path\tkind\tdetail".
pub fn all_diffs(a: &Value, b: &Value, path: String, out: &mut Vec<String>, limit: usize) {
    if out.len() >= limit || a == b {
        return;
    }
    match (a, b) {
        (Value::Object(x), Value::Object(y)) => {
            let mut keys: Vec<&String> = x.keys().chain(y.keys()).collect();
            keys.sort();
            keys.dedup();
            for k in keys {
                let (u, v) = (x.get(k).unwrap_or(&Value::Null), y.get(k).unwrap_or(&Value::Null));
                if x.contains_key(k) && y.contains_key(k) {
                    all_diffs(u, v, format!("{path}.{k}"), out, limit);
                } else if let Some(d) = first_diff(&json!({ k.as_str(): x.get(k) }), &json!({ k.as_str(): y.get(k) }), path.clone()) {
                    // present on one side only
                    let d = if x.contains_key(k) { d.replacen("\tchanged\t", "\tmissing\t", 1) } else { d.replacen("\tchanged\t", "\textra\t", 1) };
                    if out.len() < limit {
                        out.push(d);
                    }
                }
            }
        }
        (Value::Array(x), Value::Array(y)) if x.len() == y.len() => {
            for i in 0..x.len() {
                all_diffs(&x[i], &y[i], format!("{path}[{i}]"), out, limit);
            }
        }
        _ => {
            if let Some(d) = first_diff(a, b, path) {
                out.push(d);
            }
        }
    }
}

#[allow(dead_code)]
pub fn obj(pairs: Vec<(&str, Value)>) -> Value {
    let mut m = Map::new();
    for (k, v) in pairs {
        m.insert(k.to_string(), v);
    }
    Value::Object(m)
}
