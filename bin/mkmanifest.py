#!/usr/bin/env python3
"""Writes /verif/MANIFEST.json from the table below (single source for the interface file)."""
import json
import os
import subprocess

VERIF = os.path.dirname(os.path.dirname(os.path.abspath(__file__)))

CHECKS = {
    # id: (engine, level, technique, level text, level note, design ref)
    "C01": ("history", "model_checking", "TLA+ History.tla model-checked with TLC; S->I replay of every TLC behaviour on the real UserModel; I->S trace validation (TraceHistory.tla)",
            "Undo law (doc' = document before the undone operation) checked by TLC on the design for all interleavings within bounds, on every TLC behaviour of MC_History replayed with concrete catalogue operations, and on every event of recorded random histories validated against the spec.",
            "Observable state = canonical projection (harness/src/project.rs); bounded exhaustive + seeded random; known findings suppress exact (law, operation kind) signatures only.", "4 C01"),
    "C02": ("history", "model_checking", "TLA+ History.tla (RedoReapplies, NewOpDiscards) with TLC; S->I behaviour replay; I->S trace validation",
            "Redo/cursor law checked on the design, on replayed TLC behaviours and on validated traces.", "Same runs and trusted base as C01.", "4 C02"),
    "C03": ("history", "model_checking", "TLA+ History.tla (queue, net, replica; Converged, ReplicaTracks) with TLC over all flush schedules; S->I replay with a real replica; I->S trace validation",
            "Every flush schedule within bounds on the design; every replayed behaviour and recorded history applies flushed batches to a second UserModel and compares its document with the primary's at flush time.",
            "Replica opened from the primary's initial bytes with the same language; view state excluded.", "4 C03"),
    "C04": ("history", "model_checking", "TLA+ History.tla Fail action (UNCHANGED) with TLC; S->I replay with invalid-argument classes; I->S trace validation",
            "Every call that returns Err is matched only by the Fail action: document, undo/redo depths and queue unchanged.", "Which calls fail is decided by the engine (guards are never verdicts).", "4 C04"),
    "C26": ("history", "model_checking", "TLA+ History.tla Reload action + shadow bisimulation; S->I replay; I->S trace validation",
            "to_bytes/from_bytes is a stuttering step of the document at any point of a history, and the reloaded model stays in lock-step with a never-reloaded shadow under the same later operations.", "Same projection as C01.", "4 C26"),
    "C27": ("structure", "model_checking", "TLA+ WellFormed predicate (TraceWellFormed.tla) evaluated by TLC on the structural projection logged after every call",
            "WellFormed evaluated by TLC on every state of recorded catalogue histories (failed calls, undo, redo, replica, reload included).", "Projection reads the public workbook value; spill conditions after evaluation.", "4 C27"),
    "C28": ("selection", "model_checking", "TLA+ Selection.tla (SelOK) model-checked with TLC; S->I replay of every behaviour; I->S SelOK on every logged selection state (TraceSelection.tla)",
            "Reference selection machine proved to keep SelOK within bounds; every behaviour replayed with the selection compared after each step; SelOK evaluated by TLC on recorded histories.", "Choice of the newly selected sheet left open as the property leaves it.", "4 C28"),
    "C12": ("structural", "model_checking", "TLA+ Structural.tla (one position map sigma per structural edit on an abstract two-sheet workbook; InsertLosesNothing as action property) with TLC; every behaviour replayed on UserModel::insert_rows / insert_columns with the whole observable state compared",
            "Every insertion position x count within bounds, alone and after every other action; cells (12 re-entry-sensitive literals), styles, all reference kinds incl. whole columns / rows and a defined name, preserved formula values, sizes, links.",
            "Far from the grid edge (off-grid #REF! not covered); no arrays / spills in the workbook.", "4 C12"),
    "C13": ("structural", "model_checking", "TLA+ Structural.tla (SigDel; a deleted target is #REF!, partly deleted ranges left open) with TLC; every behaviour replayed on UserModel::delete_rows / delete_columns",
            "Every deletion position x count within bounds, alone and after / before every other action; surviving cells shifted, references to deleted cells #REF!, formulas that read no deleted cell keep their values.",
            "A range that loses one end may shrink or become #REF! (left open by the statement).", "4 C13"),
    "C14": ("structural", "model_checking", "TLA+ Structural.tla invariant InsertDeleteIdentity checked by TLC on the design; every insert;delete pair of the same band replayed and compared with the initial state",
            "All positions x counts x rows / columns; the state after the pair must equal the initial state in every observed component, values included.",
            "Same workbook as C12.", "4 C14"),
    "C15": ("structural", "model_checking", "TLA+ Structural.tla (SigMove, MoveClassOK side condition; MovePermutes as action property) with TLC; every behaviour replayed on UserModel::move_rows_action / move_columns_action",
            "Every block position x size x offset (both signs) within bounds, alone and combined with every other action.",
            "Ranges straddling the moved block are left open as the statement does; no hidden rows in the landing zone.", "4 C15"),
    "C33": ("structural", "model_checking", "TLA+ Structural.tla: links and the conditional-format area and rule reference are displaced by the same sigma as formulas; Clear / Undo / CutPaste actions; ClearUndoIdentity invariant; every behaviour replayed and get_links_list / get_conditional_formatting_list compared",
            "Link positions, CF area and CF rule formula after every step of every behaviour (all structural edits, clear, undo of clear, cut and paste of a linked cell).",
            "One rule, one area; copy (not cut) and paste over occupied cells are not modelled here.", "4 C33"),
    "C05": ("recalc", "model_checking", "TLA+ Recalc.tla (Val: the value function of a small workbook with references, sums, lazy IF and dynamic arrays; CircOnlyOnCycles invariant) with TLC; every editing history replayed on UserModel with every cell compared after every edit",
            "All histories of 2 edits (exhaustive) and seeded simulated histories of 6 (thorough 8) edits over ~20 contents per cell incl. cycles, self-including ranges, cross-sheet references; #CIRC! exactly where the evaluation re-enters a cell or reads one that shows it.",
            "5 cells; functions beyond +, SUM, IF, SEQUENCE are C06's.", "4 C05"),
    "C06": ("cases", "model_checking", "TLA+ Value.tla: a reference evaluator of the core formula language (exact rationals, coercion, comparison order, error propagation, direct vs referenced arguments) evaluated by TLC on every enumerated formula; each formula typed into the engine and the values compared",
            "Every construct over 22 leaves at depth 1 (10 612 formulas, quick) and over depth-1 operands at depth 2 (108 136, thorough) on a sheet holding every value type; TypeOK invariant on the evaluator.",
            "The reference semantics is this module's reading of the spreadsheet rules; cases it cannot state exactly carry no verdict.", "4 C06"),
    "C10": ("frames", "model_checking", "TLA+ FrameLaws.tla / Frames.tla (what each operation may change; small design model checked by TLC) and TraceFrames.tla: recorded operation events validated by TLC against the law of their action",
            "SetLanguage leaves values, stored formulas, names and conditional formats unchanged; SetLocale leaves stored formulas, names, conditional formats and locale-independent values unchanged; shown content typed back in any language leaves the stored formula and values unchanged - on seeded random sequences over 5 languages x 6 locales.",
            "One workbook; sampled sequences (80 quick / 1200 thorough runs of 25 operations).", "4 C10"),
    "C17": ("frames", "model_checking", "TLA+ FrameLaws.tla (RenameInRefs, DupValuesOK, RenameCaptures) / Frames.tla design model / TraceFrames.tla trace validation",
            "Rename: values unchanged, every spelled sheet name follows the rename and all others (incl. nonexistent sheets) are unchanged; move: values and spellings unchanged; duplicate: old sheets unchanged, the copy computes what its source computes - in every language.",
            "Formulas reading sheet names as text are excluded; a rename that captures dangling references carries no value verdict.", "4 C17"),
    "C31": ("recalc", "model_checking", "TLA+ Recalc.tla (Height, SpillAt, SpillOwner; SpillsExact invariant) with TLC; spill membership and values compared after every edit of every history",
            "SEQUENCE heights that depend on other cells (incl. other spills), blocked and unblocked areas, anchors overwritten, heights shrinking and growing along editing histories: exact n-cell fill or #SPILL! with nothing filled, no stale spill cell.",
            "One column, downward spills only; a height that depends on its own spill carries no verdict.", "4 C31"),
    "C32": ("frames", "model_checking", "TLA+ FrameLaws.tla (RenameInNames, RenameInUses, NamesSurviveDelete) / TraceFrames.tla trace validation",
            "Stored names unchanged by language, locale, sheet move, reload and xlsx round trip; follow sheet renames; survive deleting other sheets; renaming a name (global, local, LAMBDA, range) updates its uses and changes no value.",
            "The xlsx leading-'=' difference of LAMBDA names is a recorded finding.", "4 C32"),
    "C18": ("reentry", "model_checking", "TLA+ Reentry.tla (Reenter is a stuttering step of the 4-component cell; also the input space) enumerated by TLC; TraceReentry.tla validates the recorded type / re-enter events of every input x language/locale pair",
            "Exhaustive over all strings up to length 3 (thorough 4) over a 17-character alphabet plus a 178-entry vocabulary, in 8 (thorough 12) language/locale pairs; content, type, style and 15-digit value compared as interned ids by TLC.",
            "Fresh default-styled cells only; pre-styled cells are future growth.", "4 C18"),
    "C24": ("xlsxrt", "model_checking", "TLA+ Xlsx.tla (Export then Import is a stuttering step; model-checked) and TraceXlsx.tla: recorded random histories with export+import events validated by TLC component by component",
            "Random catalogue histories (60 quick / 700 thorough, seeded) with a real xlsx export + import every 8 operations; 9 components of the statement compared as interned ids by TLC.",
            "I->S only: the specification has no opinion on file contents; sampled histories, not exhaustive.", "4 C24"),
    "C16": ("structural", "model_checking", "TLA+ Structural.tla in clipboard mode (CutArea: references follow the moved cells; CopyArea: relative parts shifted, ranges re-normalised) with TLC; every behaviour replayed through copy_to_clipboard / paste_from_clipboard",
            "8 areas x 5 paste targets (same sheet, other sheet, over content, overlapping) x cut / copy on the C12 workbook; cells, styles, links, every reference of every formula, the defined name and preserved values compared.",
            "One paste per behaviour; partially overlapping references are left open as the statement does; English only.", "4 C16"),
    "C21": ("calendar", "model_checking", "TLA+ Calendar.tla: the day-by-day Gregorian chain with a closed form as invariant, every state (serial) printed by TLC and replayed on the date codecs, formats and functions",
            "All 2 958 465 serials are states of the spec; each is compared with from_excel_date / date_to_serial_number (all), and with yyyy-mm-dd formatting, typed ISO dates and DATE/YEAR/MONTH/DAY/WEEKDAY (windows in quick, all in thorough).",
            "Gregorian rules as written in Calendar.tla, certified against an independent closed form by TLC on every day.", "4 C21"),
    "C22": ("grid", "model_checking", "TLA+ Grid.tla (bijective base-26 columns, A1/R1C1 text, sheet-name quoting) with TLC; every enumerated case replayed on the real codecs, lexer, parser and printers",
            "Exhaustive over the 16 384 columns; references over boundary rows/columns x flags x hosts; all sheet names up to length 2 (quick) / 3 (thorough) over a tricky alphabet.",
            "R1C1 spelling not fixed by the property; names the engine rejects are skipped and counted.", "4 C22"),
    "C23": ("lang", "model_checking", "TLA+ Lang.tla (RoundTrip, Injective) evaluated by TLC over the complete name table recorded from the implementation",
            "Complete: 495 functions x 5 languages + xlsx names, 12 errors x 5 languages + xlsx form, with the implementation's own inverse lookups.", "Tables are data of the implementation (hook H2).", "4 C23"),
    "C34": ("f4", "model_checking", "TLA+ F4.tla (Cycle, Period4, OnlyDollars) with TLC; every formula x selection case replayed on cycle_reference",
            "Every formula of the token pool with every cursor position / selection; result text must be one the spec accepts; period four with the engine's own cursor and over the whole formula.",
            "Whitespace before a reference may or may not count as touched.", "4 C34"),
    "C19": ("cases", "model_checking", "TLA+ NumberInput.tla (the number grammar of the statement on character sequences) with TLC; every string up to length 4/5 over the 13-character alphabet replayed on set_user_input",
            "Exhaustive over the stated alphabet and length, two separator classes; stored type, exact value (to 1e-14) and format kind compared with the spec's verdict.",
            "Strings with spaces or '/' and non-numeric strings with a leading sign carry no verdict.", "4 C19"),
    "C20": ("cases", "model_checking", "TLA+ NumberFormat.tla (scale, round half away on the digit string, pad, group, sign, literals) with TLC; every (number, format, locale) case replayed on format_number and the cell display",
            "Numbers with <= 3/4 significant digits x powers of ten x ~35 formats x 2 locales; expected text computed without floating point.",
            "Family limited to 0 / 00 / #,##0 integer parts, 0-3 decimals, %, literals, (negative) section, 0.00E+00.", "4 C20"),
    "C09": ("cases", "model_checking", "TLA+ Formula.tla (syntax trees, Full / Min printers, recursive-descent Parse; Parse(Min(t)) = t checked by TLC) ; every enumerated tree replayed on the real parser and the four real printers",
            "All trees of depth 1 and every (parent, child, side) combination at depth 2 over every operator level; the engine must parse the spec's texts to the tree and every printer's text must parse back to it, in 6 (quick) / 30 (thorough) language-locale pairs.",
            "Leaves limited to number, decimal, string, boolean, relative reference, SUM call; other node kinds are future growth.", "4 C09"),
    "C29": ("cases", "model_checking", "TLA+ ColAttrs.tla (abstract per-column / per-row attributes, Independence as action property) with TLC; every behaviour from every initial descriptor layout replayed on Model::set_column_* / set_row_*",
            "All layouts of <= 2 column descriptors (incl. multi-column ones) x all action sequences of length 2 (quick) / 3 (thorough); the (width, hidden, style) vector of every column compared after each step; same for rows.",
            "Layouts are injected through the public workbook value, as an import would produce them.", "4 C29"),
    "C30": ("cases", "model_checking", "TLA+ Styles.tla (Assign, ReadBack, NoAliasing) with TLC; every assignment sequence replayed on set_cell_style / set_row_style / set_column_style and read back",
            "All sequences of 2 (quick) / 3 (thorough) assignments over 4 targets x 21 styles; 7 reads (targets and untouched probes) compared after each step, and again after a binary reload.",
            "Style pool chosen so that each attribute is varied alone.", "4 C30"),
    "C07": ("recalc", "model_checking", "TLA+ Recalc.tla: the demanded values are a function of the contents alone; every final workbook of its behaviours is rebuilt in other input orders, with paused evaluation, with a reload, and evaluated twice",
            "9 rebuild variants per behaviour (3 orders x 3 modes) + second evaluation, all compared with what the editing history shows.",
            "Dynamic arrays feeding other formulas included; volatile functions excluded as the statement does.", "4 C07"),
    "C08": ("cases", "exploration", "TLA+ Finite.tla supplies the case space (argument-class vectors x result shapes) and the invariant; the harness crosses it with all built-in functions and operators and scans every stored number",
            "~1100 (vector, shape) cases x ~485 functions + operators per run; every cell of the workbook checked with f64::is_finite after evaluation; typed overflow numbers too.",
            "No semantic oracle comes from the specification (there is no arithmetic to model): level exploration.", "4 C08"),
    "C11": ("cases", "exploration", "TLA+ Tokens.tla enumerates token sequences (60 spellings, length <= 3); each is passed to the lexer/parser, completion, F4 cycling, number formatter and cell input under catch_unwind and a watchdog",
            "All sequences of length <= 2 plus 12 000 sampled of length 3 (quick) / all of length 3 (thorough) x 7 APIs x 3 (thorough 30) language/locale pairs.",
            "Oracle is 'returns'; formulas with a range operator are not evaluated (whole-column arrays do not finish).", "4 C11"),
    "C25": ("cases", "fault_enumeration", "TLA+ XlsxFaults.tla (package = parts = elements + attributes; fault actions; Import outcome in {ok, err}) enumerated by TLC over the vocabulary of real packages; every fault plan applied to the bytes and imported",
            "Every single fault (element drop/duplicate/empty, attribute drop / garble x 8 classes, index-like attributes moved up by 1..12, part truncate/drop, zip truncate, byte flip) over up to 12 positions per part of 9 packages (~21 000 plans quick); thorough: 40 positions per part and fault pairs (~83 000 plans).",
            "Crash detection by catch_unwind, watchdog and process exit status; no oracle on whether a damaged file should load.", "4 C25"),
}


def main():
    ids = [json.loads(l)["id"] for l in open(os.path.join(VERIF, "properties.jsonl"))]
    commits = subprocess.run(["git", "-C", "/repo", "log", "--format=%h %s"], stdout=subprocess.PIPE).stdout.decode().splitlines()
    hook_commits = [c.split()[0] for c in commits if c.split(" ", 1)[1].startswith("verif hooks")]
    checks = []
    for pid in ids:
        if pid not in CHECKS:
            continue
        eng, level, tech, text, note, ref = CHECKS[pid]
        checks.append({
            "property_id": pid,
            "quick_cmd": f"bin/check {pid} --tier quick",
            "thorough_cmd": f"bin/check {pid} --tier thorough",
            "evidence_file": f"/verif/evidence/{pid}.json",
            "replay_cmd_template": f"bin/check {pid} --replay {{path}}",
            "engine": eng,
            "level_claimed": {"category": level, "text": text, "design_ref": "DESIGN.md section " + ref},
            "level_note": note,
            "technique": tech,
        })
    na = [{"property_id": i, "reason": "check not built yet in this session (planned in DESIGN.md section 10); not claimed"} for i in ids if i not in CHECKS]
    m = {
        "version": 1,
        "setup_cmd": "cd /verif/harness && cargo build --release --offline",
        "hooks": {
            "guard": "--cfg ironcalc_verif",
            "enable": "rustflags in /verif/harness/.cargo/config.toml (--cfg ironcalc_verif); the harness has path dependencies on /repo/base and /repo/xlsx and is rebuilt by every check from /repo's current working tree",
            "baseline_off_cmd": "cd /repo && cargo nextest run --workspace --no-fail-fast --test-threads 8 --offline",
            "source_commits": hook_commits,
            "add_only": True,
        },
        "engines": [
            {"name": "history", "path": "spec/History.tla, spec/MC_History.tla, spec/TraceHistory.tla, bin/fam_history.py, harness/src/{world,histrec,ops,gen,project}.rs", "serves_properties": ["C01", "C02", "C03", "C04", "C26"], "kind_free_text": "TLC model checking + bidirectional conformance"},
            {"name": "selection", "path": "spec/Selection.tla, spec/MC_Selection.tla, spec/TraceSelection.tla, harness/src/behreplay.rs", "serves_properties": ["C28"], "kind_free_text": "TLC model checking + bidirectional conformance"},
            {"name": "cases", "path": "spec/{Calendar,Grid,Lang,F4,NumberInput,NumberFormat}.tla, bin/fam_cases.py, harness/src/cases.rs", "serves_properties": ["C06", "C08", "C09", "C11", "C25", "C29", "C30", "C19", "C20", "C21", "C22", "C23", "C34"], "kind_free_text": "TLC case enumeration with expected results, replayed on the implementation"},
            {"name": "structural", "path": "spec/Structural.tla, bin/fam_cases.py (StructuralFam), harness/src/structural.rs", "serves_properties": ["C12", "C13", "C14", "C15", "C16", "C33"], "kind_free_text": "TLC behaviour enumeration with expected abstract state, replayed on the implementation"},
            {"name": "xlsxrt", "path": "spec/Xlsx.tla, spec/TraceXlsx.tla, bin/fam_xlsx.py, harness/src/xlsxrt.rs", "serves_properties": ["C24"], "kind_free_text": "TLC trace validation of recorded export/import round trips"},
            {"name": "recalc", "path": "spec/Recalc.tla, bin/fam_cases.py (RecalcFam), harness/src/recalc.rs", "serves_properties": ["C05", "C07", "C31"], "kind_free_text": "TLC behaviour enumeration + simulation with expected values, replayed on the implementation"},
            {"name": "frames", "path": "spec/FrameLaws.tla, spec/Frames.tla, spec/TraceFrames.tla, bin/fam_xlsx.py, harness/src/frames.rs", "serves_properties": ["C10", "C17", "C32"], "kind_free_text": "TLC trace validation of per-operation frame laws"},
            {"name": "reentry", "path": "spec/Reentry.tla, spec/TraceReentry.tla, bin/fam_xlsx.py, harness/src/reentry.rs", "serves_properties": ["C18"], "kind_free_text": "TLC input enumeration + trace validation of type / re-enter events"},
            {"name": "structure", "path": "spec/TraceWellFormed.tla", "serves_properties": ["C27"], "kind_free_text": "TLC trace validation of a state predicate"},
        ],
        "checks": checks,
        "not_applicable": na,
        "notes": "Exit codes of every check: 0 held (KNOWN-FINDING lines possible), 1 VIOLATION line printed, 2 tool error. Known findings: /verif/known_findings.json.",
    }
    with open(os.path.join(VERIF, "MANIFEST.json"), "w") as f:
        json.dump(m, f, indent=1)
    print("MANIFEST.json written:", len(checks), "checks,", len(na), "not claimed")


if __name__ == "__main__":
    main()
