"""History family: C01 (undo), C02 (redo), C03 (replica), C04 (failed op), C26 (binary reload).
One shared run (DESIGN 2.6): design check of History.tla with TLC, S->I replay of every TLC
behaviour of MC_History, I->S validation of recorded catalogue histories with TraceHistory.tla.
The side traces of the same run (selection, structure) are used by C28 and C27."""
import json
import os

from vlib import (SPEC, ToolError, icverif, log, norm_path, tla_tuple_lines, tlc, tlc_stats, validate_trace,
                  write_replay, json_diff)

PROPS = ["C01", "C02", "C03", "C04", "C26"]

LAW_TEXT = {
    "undo-restore": "undo did not restore the workbook that preceded the undone operation",
    "undo-failed": "undo returned an error or left wrong history depths",
    "undo-empty-changed": "undo on an empty history changed something",
    "op-unrecorded": "a successful call changed the workbook or the history without recording exactly one undo entry",
    "redo-reapply": "redo did not reproduce the workbook that followed the original operation",
    "redo-failed": "redo returned an error or left wrong history depths",
    "redo-empty-changed": "redo on an empty redo list changed something",
    "redo-not-cleared": "a new operation did not discard the redo list",
    "op-depths": "history depths after a new operation differ from the specification",
    "replica-diverged": "replica that applied the flushed batches differs from the primary",
    "replica-stuck": "replica could not apply a flushed batch",
    "flush-broken": "flush did not empty the queue or changed the workbook",
    "fail-pushed": "a call that returned an error left an undo entry (and discarded the redo list)",
    "fail-changed": "a call that returned an error changed the workbook",
    "fail-history": "a call that returned an error changed the history",
    "reload-changed": "workbook differs after to_bytes/from_bytes",
    "reload-failed": "from_bytes(to_bytes()) failed",
    "shadow-diverged": "reloaded model and never-reloaded model diverged under the same later operations",
}


def cfg_small(d, tier):
    mt, mq, mn = (3, 2, 2) if tier == "quick" else (4, 3, 2)
    p = os.path.join(d, "MC_History_small.cfg")
    with open(p, "w") as f:
        f.write(f"""SPECIFICATION SmallSpec
CONSTANTS
  Doc = {{0, 1, 2}}
  MaxSteps = 0
  MaxTimeline = {mt}
  MaxQueue = {mq}
  MaxNet = {mn}
CONSTRAINT SmallConstraint
INVARIANTS TypeOK CursorModel ReplicaNeverStuck ReplicaTracks Converged
PROPERTIES UndoRestores RedoReapplies NewOpDiscards
CHECK_DEADLOCK FALSE
""")
    return p, {"Doc": 3, "MaxTimeline": mt, "MaxQueue": mq, "MaxNet": mn}


def cfg_beh(d, steps):
    p = os.path.join(d, "MC_History_beh.cfg")
    docs = ", ".join(str(i) for i in range(steps + 2))
    with open(p, "w") as f:
        f.write(f"""SPECIFICATION BehSpec
CONSTANTS
  Doc = {{{docs}}}
  MaxSteps = {steps}
  MaxTimeline = 99
  MaxQueue = 99
  MaxNet = 2
INVARIANTS TypeOK CursorModel ReplicaNeverStuck ReplicaTracks Converged Emit
CHECK_DEADLOCK FALSE
""")
    return p


def split_diff(d):
    parts = (d or "").split("\t")
    if len(parts) >= 2:
        return parts[0], parts[1], parts[2] if len(parts) > 2 else ""
    return d or "", "", ""


def refine(path, kind, detail):
    """A little more than the path for added/removed cells: what the residue consists of."""
    p = norm_path(path)
    if ".cells.R*C*" in p and p.endswith("R*C*") and kind in ("extra", "missing"):
        try:
            cell = json.loads(detail) if isinstance(detail, str) else detail
            if cell.get("content", "") == "":
                st = cell.get("style", {})
                bits = []
                if st.get("num_fmt", "general") != "general":
                    bits.append("num_fmt")
                if st.get("quote_prefix"):
                    bits.append("quote_prefix")
                if not bits:
                    bits.append("style")
                return p + "(empty+" + "+".join(bits) + ")"
        except Exception:
            pass
    return p


def signature(prop, law, subject, path, kind, detail=""):
    return f"{prop}|{law}|{subject}|{refine(path, kind, detail)}|{kind}"


def run(d, tier, seed):
    res = {"tier": tier, "seed": seed, "violations": {p: [] for p in PROPS + ["PANIC"]}}
    # ---- 1. the properties on the design ---------------------------------------------------
    cfg, consts = cfg_small(d, tier)
    rc, out, dt = tlc("MC_History.tla", cfg, os.path.join(d, "meta_small"), workers=8, timeout=1500, coverage=True)
    st = tlc_stats(out)
    if st is None or "Error:" in out:
        raise ToolError("MC_History (design check) failed:\n" + out[-4000:])
    cov = {}
    for line in out.splitlines():
        import re
        m = re.match(r"<(\w+) line \d+, col \d+ to line \d+, col \d+ of module (\w+)>: (\d+):(\d+)", line.strip())
        if m:
            cov[m.group(1)] = {"distinct": int(m.group(3)), "taken": int(m.group(4))}
    never = [a for a, c in cov.items() if c["taken"] == 0 and a not in ("MCInit",)]
    res["design"] = {"states": st["distinct"], "transitions": st["generated"], "constants": consts, "seconds": round(dt, 1),
                     "action_coverage": cov, "actions_never_taken": never}
    if never:
        raise ToolError(f"vacuity: actions never taken in the bounded model: {never}")
    # ---- 2. S->I: every behaviour of the spec replayed on the real UserModel ----------------
    steps = 5 if tier == "quick" else 6
    cfgb = cfg_beh(d, steps)
    rc, out, dt = tlc("MC_History.tla", cfgb, os.path.join(d, "meta_beh"), workers=8, timeout=1500)
    stb = tlc_stats(out)
    if stb is None or "Error:" in out:
        raise ToolError("MC_History (behaviour generation) failed:\n" + out[-4000:])
    beh_path = os.path.join(d, "beh.ndjson")
    nbeh = 0
    with open(beh_path, "w") as f:
        for line in out.splitlines():
            if line.startswith('<<"BEHAVIOUR", "'):
                s = line.strip()[len('<<"BEHAVIOUR", '):-2]
                f.write(json.loads(s) + "\n")
                nbeh += 1
    k = 2 if tier == "quick" else 3
    hb_dir = os.path.join(d, "hb")
    hb, dt2 = icverif(["histbeh", "--in", beh_path, "--out", hb_dir, "--k", k, "--seed", seed])
    res["s2i"] = {"behaviours": nbeh, "steps": steps, "instantiations": hb["instantiations"], "steps_executed": hb["steps_executed"],
                  "abandoned_guard_mismatch": hb["abandoned"], "mismatches": hb["mismatches"], "by_action": hb["by_action"],
                  "distinct_nontrivial": hb["distinct_nontrivial"], "samples": hb["samples"][:2],
                  "tlc_states": stb["distinct"], "tlc_transitions": stb["generated"], "seconds": round(dt + dt2, 1)}
    seen = {}
    with open(os.path.join(hb_dir, "mismatches.ndjson")) as f:
        for line in f:
            m = json.loads(line)
            prop = m["property"]
            path, kind, detail = split_diff(m.get("diff"))
            if prop == "C03" and m.get("subject") == "batch":
                m["subject"] = single_entry_subject(m["program"], d) or "batch-only"
            sig = signature(prop, m["why"], m.get("subject", ""), path, kind, detail)
            if sig in seen:
                seen[sig]["count"] += 1
                continue
            what = f"{LAW_TEXT.get(m['why'], m['why'])}: {m.get('subject', '')} ({norm_path(path)} {kind} {detail[:160]})"
            v = {"signature": sig, "what": what, "direction": "S->I", "count": 1,
                 "payload": {"property": prop, "family": "history", "signature": sig, "what": what, "direction": "S->I",
                             "spec_behaviour": m["behaviour"], "failing_step": m["step"], "program": m["program"]}}
            seen[sig] = v
            res["violations"].setdefault(prop, []).append(v)
    # ---- 3. I->S: recorded catalogue histories validated by TLC ----------------------------
    if tier == "quick":
        plans = [dict(runs=45, steps=140, extra=["--nav"]), dict(runs=30, steps=300, extra=["--nav", "--calm"])]
    else:
        plans = [dict(runs=300, steps=300, extra=["--nav", "--edge"]), dict(runs=200, steps=600, extra=["--nav", "--calm", "--edge"]),
                 dict(runs=12, steps=2000, extra=["--nav", "--calm"])]
    res["i2s"] = {"events": 0, "runs": 0, "accepted_chunks": 0, "kinds": {}, "diff_variants": {}, "results": {}, "seconds": 0,
                  "violations_printed": 0}
    side = []
    for pi, plan in enumerate(plans):
        tdir = os.path.join(d, f"trace{pi}")
        summ, dtr = icverif(["histrec", "--seed", seed + 1000 * pi, "--runs", plan["runs"], "--steps", plan["steps"], "--out", tdir] + plan["extra"])
        side.append(tdir)
        accepted, out, dtv = validate_trace("TraceHistory.tla", os.path.join(SPEC, "TraceHistory.cfg"),
                                            os.path.join(tdir, "hist.ndjson"), os.path.join(d, "meta_trace"))
        if not accepted:
            raise ToolError("TraceHistory did not consume the whole trace (spec or recorder bug):\n" + out[-3000:])
        viols = tla_tuple_lines(out, "VIOL")
        i2s = res["i2s"]
        i2s["events"] += summ["events"]
        i2s["runs"] += plan["runs"]
        i2s["accepted_chunks"] += 1
        i2s["seconds"] += round(dtr + dtv, 1)
        i2s["violations_printed"] += len(viols)
        for kk in ("kinds", "diff_variants", "results"):
            for a, b in summ[kk].items():
                i2s[kk][a] = i2s[kk].get(a, 0) + b
        if viols:
            attribute(res, tdir, viols, seen, d)
    res["side_traces"] = side
    missing = [v for v in ALL_DIFF_VARIANTS if v not in res["i2s"]["diff_variants"]]
    res["i2s"]["diff_variants_not_exercised"] = missing
    return res


ALL_DIFF_VARIANTS = ['SetCellValue', 'SetArrayValue', 'RangeClearContents', 'RangeClearAll', 'CellClearFormatting', 'SetCellStyle',
                     'ApplyNamedStyle', 'SetColumnWidth', 'SetColumnHidden', 'SetRowHeight', 'SetRowHidden', 'SetColumnStyle',
                     'SetRowStyle', 'DeleteColumnStyle', 'DeleteRowStyle', 'InsertRows', 'DeleteRows', 'InsertColumns', 'DeleteColumns',
                     'DeleteSheet', 'SetFrozenRowsCount', 'SetFrozenColumnsCount', 'NewSheet', 'DuplicateSheet', 'RenameSheet',
                     'MoveSheet', 'SetSheetColor', 'SetSheetState', 'SetShowGridLines', 'SetTheme', 'CreateDefinedName',
                     'DeleteDefinedName', 'UpdateDefinedName', 'MoveColumns', 'MoveRows', 'SetLocale', 'SetWorkbookName', 'SetTimezone',
                     'CreateNamedStyle', 'DeleteNamedStyle', 'UpdateNamedStyle', 'AddConditionalFormatting',
                     'DeleteConditionalFormatting', 'UpdateConditionalFormatting', 'SetCellLink', 'SwapConditionalFormattingPriority']


def single_entry_subject(program, d):
    """A batch of several queue entries diverged: re-run the same program flushing and applying
    after every primary step, validate it the same way, and name the first entry whose
    application alone diverges (classification of the violation, not a verdict)."""
    prog = []
    for act in program:
        if act.get("act") in ("flush", "apply"):
            continue
        prog.append(act)
        if act.get("act") in ("op", "undo", "redo"):
            prog.append({"act": "flush"})
            prog.append({"act": "apply"})
    rd = os.path.join(d, "refine")
    pth = os.path.join(d, "refine_prog.json")
    with open(pth, "w") as f:
        json.dump({"program": prog}, f)
    try:
        icverif(["runprog", "--in", pth, "--out", rd])
        ok, out, _ = validate_trace("TraceHistory.tla", os.path.join(SPEC, "TraceHistory.cfg"), os.path.join(rd, "hist.ndjson"),
                                    os.path.join(d, "meta_refine"))
    except ToolError:
        return None
    vs = [v for v in tla_tuple_lines(out, "VIOL") if v[2] == "C03"]
    if not vs:
        return None
    events = [json.loads(l) for l in open(os.path.join(rd, "hist.ndjson"))]
    subj, _ = mirror(events)
    return subj.get(vs[0][1])


def mirror(events):
    """Operation kinds on the stacks / in the queue per event index (1-based like TLC's l).
    Classification of violations only; verdicts come from TLC."""
    subject = {}
    undo, redo, queue, net = [], [], [], []
    run_start = 0
    starts = {}
    for idx, ev in enumerate(events, start=1):
        e = ev["ev"]
        if e == "reset":
            undo, redo, queue, net = [], [], [], []
            run_start = idx
        starts[idx] = run_start
        h = ev.get("hist", [0, 0, 0])
        if e == "op":
            subject[idx] = ev["kind"]
            if h[0] == len(undo) + 1:
                undo.append(ev["kind"])
                redo = []
                queue.append(ev["kind"])
        elif e == "undo":
            subject[idx] = undo[-1] if undo else ""
            if undo and h[0] == len(undo) - 1:
                k = undo.pop()
                redo.append(k)
                queue.append("undo:" + k)
        elif e == "redo":
            subject[idx] = redo[-1] if redo else ""
            if redo and h[0] == len(undo) + 1:
                k = redo.pop()
                undo.append(k)
                queue.append("redo:" + k)
        elif e == "flush":
            net.append(queue)
            queue = []
        elif e == "apply":
            batch = net.pop(0) if net else []
            subject[idx] = batch[0] if len(batch) == 1 else "batch"
        elif e == "reload":
            subject[idx] = undo[-1] if undo else ""
            undo, redo = [], []
        elif e == "shadow":
            subject[idx] = events[idx - 2]["kind"] if idx >= 2 else ""
    return subject, starts


def attribute(res, tdir, viols, seen, d=None):
    """Turns TLC's VIOL lines (event index, property, law, wanted doc, observed doc) into signed
    violations with replay programs.  The mirror below is classification only."""
    events = [json.loads(l) for l in open(os.path.join(tdir, "hist.ndjson"))]
    progs = [json.loads(l) for l in open(os.path.join(tdir, "prog.ndjson"))]
    docs = None

    def doc(i):
        nonlocal docs
        if docs is None:
            docs = open(os.path.join(tdir, "docs.ndjson")).read().splitlines()
        if i is None or i < 1 or i > len(docs):
            return None
        return json.loads(docs[i - 1])

    subject, starts = mirror(events)
    for v in viols:
        _, l, prop, law, want, got = v[:6]
        a, b = doc(want), doc(got)
        dd = json_diff(a, b) if (a is not None and b is not None) else None
        path, kind, detail = (dd[0], dd[1], json.dumps(dd[2])[:300]) if dd else ("", "", "")
        subj = subject.get(l, "")
        if prop == "PANIC":
            subj = events[l - 1].get("kind", "")
            detail = events[l - 1].get("msg", "")[:200]
        rs = starts.get(l, 1)
        program = [p["act"] for p in progs[rs:l] if p.get("act")]
        if prop == "C03" and subj == "batch" and d is not None:
            fine = single_entry_subject(program, d)
            subj = fine if fine else "batch-only"
        sig = signature(prop, law, subj, path, kind, dd[2] if dd else "")
        if sig in seen:
            seen[sig]["count"] += 1
            continue
        what = f"{LAW_TEXT.get(law, law)}: {subj} ({norm_path(path)} {kind} {detail[:160]})"
        vv = {"signature": sig, "what": what, "direction": "I->S", "count": 1,
              "payload": {"property": prop, "family": "history", "signature": sig, "what": what, "direction": "I->S",
                          "failing_event": l - rs, "law": law, "program": program}}
        seen[sig] = vv
        res["violations"].setdefault(prop, []).append(vv)


def evidence_for(prop, res):
    d, s, i = res["design"], res["s2i"], res["i2s"]
    samples = []
    for sm in s["samples"][:1]:
        samples.append({"direction": "S->I", "spec_behaviour": sm["behaviour"], "instantiated_program": sm["program"]})
    return {
        "states": d["states"] + s["tlc_states"],
        "transitions": d["transitions"] + s["tlc_transitions"],
        "traces_validated_against_impl": s["instantiations"] - s["abandoned_guard_mismatch"] + i["runs"],
        "samples": samples,
        "evaluations": s["steps_executed"] + i["events"],
        "distinct_nontrivial": s["distinct_nontrivial"],
        "rule": "S->I: every behaviour of MC_History of the stated length (Op/Fail/Undo/Redo/Flush/Apply/Reload) instantiated with seeded catalogue operations; "
                "distinct_nontrivial counts distinct (spec action, operation kind) pairs whose law was actually checked on a state-changing step. "
                "I->S: seeded random catalogue histories, one event per public call, validated by TLC against TraceHistory.tla.",
        "design_model": {"module": "History.tla", "constants": d["constants"], "distinct_states": d["states"], "states_generated": d["transitions"],
                         "invariants": ["TypeOK", "CursorModel", "ReplicaNeverStuck", "ReplicaTracks", "Converged"],
                         "action_properties": ["UndoRestores", "RedoReapplies", "NewOpDiscards"], "action_coverage": d["action_coverage"]},
        "spec_to_impl": {k: s[k] for k in ("behaviours", "steps", "instantiations", "steps_executed", "abandoned_guard_mismatch", "mismatches", "by_action")},
        "impl_to_spec": {"events_validated": i["events"], "runs": i["runs"], "operation_kinds": i["kinds"], "diff_variants": i["diff_variants"],
                         "diff_variants_not_exercised": i["diff_variants_not_exercised"], "results": i["results"],
                         "violations_printed_by_tlc": i["violations_printed"]},
        "exhaustive": False,
    }


ASSUMPTIONS = [
    "the observable workbook is the canonical projection of harness/src/project.rs (contents, values, types, formatted text, styles, "
    "row/column attributes, sheets, names, named styles, links, conditional formats, theme, name, locale, timezone); per-user view state is excluded",
    "volatile functions, set_language and pause_evaluation are not generated in these histories",
    "TLC 1.8.0, CommunityModules Json/IOUtils; equality of interned document ids is equality of canonical projections",
    "S->I instantiations whose operation the engine accepted although the generator meant it to fail (or vice versa) are abandoned and counted, never judged",
]


def replay(prop, path):
    """Re-executes the program of a replay file on the current tree, validates the recorded traces
    with the trace specifications and prints what TLC reports."""
    import tempfile
    import shutil
    from vlib import WORK
    os.makedirs(WORK, exist_ok=True)
    d = tempfile.mkdtemp(prefix="replay_", dir=WORK)
    try:
        with open(path) as f:
            payload = json.load(f)
        pp = os.path.join(d, "prog.json")
        with open(pp, "w") as f:
            json.dump({"program": payload["program"]}, f)
        icverif(["runprog", "--in", pp, "--out", d])
        found = 0
        for module, cfg, trace in (("TraceHistory.tla", "TraceHistory.cfg", "hist.ndjson"), ("TraceSelection.tla", "TraceSelection.cfg", "view.ndjson"),
                                   ("TraceWellFormed.tla", "TraceWellFormed.cfg", "wf.ndjson")):
            ok, out, _ = validate_trace(module, os.path.join(SPEC, cfg), os.path.join(d, trace), os.path.join(d, "meta"))
            for v in tla_tuple_lines(out, "VIOL"):
                if v[2] == prop or prop == "*":
                    print("replay:", v)
                    found += 1
        print(f"replay of {path}: {found} violation(s) of {prop} on the current tree")
        if found:
            print(f"VIOLATION property={prop} replay={path}")
        return 1 if found else 0
    finally:
        shutil.rmtree(d, ignore_errors=True)
