"""Shared machinery of bin/check: building the harness, running TLC, parsing its output,
run cache, known findings, evidence files.  Python 3 standard library only."""
import hashlib
import json
import os
import re
import shutil
import subprocess
import sys
import time

VERIF = os.path.dirname(os.path.dirname(os.path.abspath(__file__)))
REPO = "/repo"
SPEC = os.path.join(VERIF, "spec")
HARNESS = os.path.join(VERIF, "harness")
WORK = os.environ.get("VERIF_WORK") or os.path.join(VERIF, "work")     # scratch (git-ignored)
EVID = os.environ.get("VERIF_EVIDENCE") or os.path.join(VERIF, "evidence")
ICVERIF = os.path.join(HARNESS, "target", "release", "icverif")
NCPU = os.cpu_count() or 4


class ToolError(Exception):
    """Anything that is not a verdict about IronCalc: build failure, TLC error, timeout."""


def log(*a):
    print(*a, file=sys.stderr, flush=True)


def sh(cmd, cwd=None, env=None, timeout=None, check=False):
    e = dict(os.environ)
    if env:
        e.update(env)
    t0 = time.time()
    try:
        p = subprocess.run(cmd, cwd=cwd, env=e, stdout=subprocess.PIPE, stderr=subprocess.STDOUT,
                           timeout=timeout, shell=isinstance(cmd, str))
    except subprocess.TimeoutExpired as ex:
        raise ToolError(f"timeout after {timeout}s: {cmd}") from ex
    out = p.stdout.decode("utf-8", "replace")
    if check and p.returncode != 0:
        raise ToolError(f"command failed ({p.returncode}): {cmd}\n{out[-4000:]}")
    return p.returncode, out, time.time() - t0


def build_key():
    return tree_hash([os.path.join(REPO, "base"), os.path.join(REPO, "xlsx"), os.path.join(REPO, "Cargo.lock"),
                      os.path.join(REPO, "Cargo.toml"), os.path.join(HARNESS, "src"), os.path.join(HARNESS, "Cargo.toml"),
                      os.path.join(HARNESS, "Cargo.lock"), os.path.join(HARNESS, ".cargo", "config.toml")], extra="build")


def build_harness():
    """Rebuilds the harness (and, through its path dependencies, ironcalc_base / ironcalc from
    /repo's current working tree) with --cfg ironcalc_verif.  ironcalc_base's build script asks
    cargo to re-run whenever base/.git/HEAD changes, a file that does not exist, so cargo
    rebuilds everything on every invocation; the build is therefore skipped when the content
    hash of every input (all of /repo/base, /repo/xlsx, the lock files, the harness sources) is
    the one the existing binary was built from."""
    key = build_key()
    stamp = os.path.join(HARNESS, "target", "release", ".icverif_built_from")
    if os.path.exists(ICVERIF) and os.path.exists(stamp) and open(stamp).read().strip() == key:
        return 0.0
    env = {"CARGO_NET_OFFLINE": "true"}
    rc, out, dt = sh(["cargo", "build", "--release", "--offline"], cwd=HARNESS, env=env, timeout=3000)
    if rc != 0:
        raise ToolError("harness build failed:\n" + out[-6000:])
    with open(stamp, "w") as f:
        f.write(key)
    return dt


def icverif(args, timeout=3600, env=None):
    rc, out, dt = sh([ICVERIF] + [str(a) for a in args], timeout=timeout, env=env)
    if rc != 0:
        raise ToolError(f"icverif {' '.join(map(str, args))} failed ({rc}):\n{out[-4000:]}")
    # last JSON line
    for line in reversed(out.strip().splitlines()):
        line = line.strip()
        if line.startswith("{"):
            try:
                return json.loads(line)["result"], dt
            except Exception:
                pass
    raise ToolError("icverif produced no result line:\n" + out[-2000:])


def tree_hash(paths, extra=""):
    h = hashlib.sha256()
    h.update(extra.encode())
    for root in paths:
        if os.path.isfile(root):
            files = [root]
        else:
            files = []
            for d, dirs, fs in os.walk(root):
                dirs[:] = sorted(x for x in dirs if x not in ("target", ".git", "node_modules", "states", "work"))
                for f in sorted(fs):
                    files.append(os.path.join(d, f))
        for f in files:
            try:
                st = os.stat(f)
            except OSError:
                continue
            h.update(f.encode())
            if st.st_size < 8_000_000:
                with open(f, "rb") as fh:
                    h.update(fh.read())
            else:
                h.update(str((st.st_size, st.st_mtime_ns)).encode())
    return h.hexdigest()[:24]


def run_key(family, tier, seed):
    return tree_hash([os.path.join(REPO, "base"), os.path.join(REPO, "xlsx"), os.path.join(REPO, "Cargo.lock"),
                      SPEC, os.path.join(HARNESS, "src"), os.path.join(HARNESS, "Cargo.toml"),
                      os.path.join(VERIF, "bin"), os.path.join(VERIF, "known_findings.json")],
                     extra=f"{family}|{tier}|{seed}")


def cached_run(family, tier, seed, fn):
    """Several properties are decided on the same executions (DESIGN 2.6): the family's run is
    executed once per (tree, spec, harness, tier, seed) and its result reused."""
    key = run_key(family, tier, seed)
    d = os.path.join(WORK, "runs", family, key)
    res = os.path.join(d, "result.json")
    if os.path.exists(res) and not os.environ.get("VERIF_NOCACHE"):
        with open(res) as f:
            r = json.load(f)
        r["_cached"] = True
        return r, d
    # keep the cache small: drop older runs of this family
    fam_dir = os.path.join(WORK, "runs", family)
    if os.path.isdir(fam_dir):
        for old in os.listdir(fam_dir):
            shutil.rmtree(os.path.join(fam_dir, old), ignore_errors=True)
    os.makedirs(d, exist_ok=True)
    t0 = time.time()
    r = fn(d)
    r["wall_s"] = round(time.time() - t0, 2)
    with open(res, "w") as f:
        json.dump(r, f)
    r["_cached"] = False
    return r, d


# ----------------------------------------------------------------------------------------------
# TLC

TLC_CP = "/opt/veriftools/tla/tla2tools.jar:/opt/veriftools/tla/CommunityModules-deps.jar"


def tlc(module, cfg, metadir, workers=8, env=None, timeout=1800, java_opts="", extra=None, coverage=False, cwd=None):
    os.makedirs(metadir, exist_ok=True)
    e = {}
    if env:
        e.update(env)
    # TLC prints non-ASCII characters of strings as '?' unless the JVM's output encoding is UTF-8
    e["JAVA_TOOL_OPTIONS"] = (java_opts + " -Dfile.encoding=UTF-8 -Dstdout.encoding=UTF-8 -Dsun.stdout.encoding=UTF-8").strip()
    cmd = ["timeout", str(timeout), "tlc", "-workers", str(workers), "-metadir", metadir, "-cleanup",
           "-noGenerateSpecTE", "-config", cfg]
    if coverage:
        cmd += ["-coverage", "1"]
    if extra:
        cmd += extra
    cmd += [module]
    rc, out, dt = sh(cmd, cwd=cwd or SPEC, env=e, timeout=timeout + 60)
    shutil.rmtree(metadir, ignore_errors=True)
    return rc, out, dt


def tlc_stats(out):
    m = re.search(r"(\d+) states generated, (\d+) distinct states found", out)
    if not m:
        return None
    return {"generated": int(m.group(1)), "distinct": int(m.group(2))}


def tlc_ok(out):
    return ("Model checking completed. No error has been found." in out) or ("Finished in" in out and "Error:" not in out)


def tlc_require_ok(out, what):
    """A TLC error on a design-level check is a bug in the specification, not a verdict."""
    if "Error:" in out or "error" in out.split("Finished in")[0].lower().split("parsing")[0] and False:
        raise ToolError(f"TLC reported an error in {what}:\n" + out[-5000:])
    if tlc_stats(out) is None:
        raise ToolError(f"TLC did not finish for {what}:\n" + out[-5000:])


def tla_tuple_lines(out, tag):
    """Lines printed by PrintT(<<"TAG", ...>>) -> python lists."""
    res = []
    pref = '<<"' + tag + '"'
    for line in out.splitlines():
        if line.startswith(pref):
            s = line.strip()
            try:
                res.append(tla_value(s))
            except Exception:
                log("unparsable TLC line:", s[:300])
    return res


def tla_value(s):
    """Parses the subset of TLA+ value syntax TLC prints for tuples of strings / integers /
    booleans / nested tuples / records."""
    pos = 0

    def ws():
        nonlocal pos
        while pos < len(s) and s[pos] in " \n\t":
            pos += 1

    def val():
        nonlocal pos
        ws()
        if s.startswith("<<", pos):
            pos += 2
            items = []
            ws()
            if s.startswith(">>", pos):
                pos += 2
                return items
            while True:
                items.append(val())
                ws()
                if s.startswith(">>", pos):
                    pos += 2
                    return items
                if s[pos] == ",":
                    pos += 1
                else:
                    raise ValueError("tuple syntax at %d" % pos)
        if s[pos] == "[":
            pos += 1
            rec = {}
            while True:
                ws()
                m = re.match(r"[A-Za-z_][A-Za-z0-9_]*", s[pos:])
                k = m.group(0)
                pos += len(k)
                ws()
                assert s.startswith("|->", pos)
                pos += 3
                rec[k] = val()
                ws()
                if s[pos] == "]":
                    pos += 1
                    return rec
                assert s[pos] == ","
                pos += 1
        if s[pos] == "{":
            pos += 1
            items = []
            ws()
            if s[pos] == "}":
                pos += 1
                return items
            while True:
                items.append(val())
                ws()
                if s[pos] == "}":
                    pos += 1
                    return items
                assert s[pos] == ","
                pos += 1
        if s[pos] == '"':
            j = pos + 1
            buf = []
            while s[j] != '"':
                if s[j] == "\\":
                    j += 1
                    c = s[j]
                    buf.append({"n": "\n", "t": "\t", "r": "\r", "f": "\f"}.get(c, c))
                else:
                    buf.append(s[j])
                j += 1
            pos = j + 1
            return "".join(buf)
        m = re.match(r"-?\d+", s[pos:])
        if m:
            pos += len(m.group(0))
            return int(m.group(0))
        if s.startswith("TRUE", pos):
            pos += 4
            return True
        if s.startswith("FALSE", pos):
            pos += 5
            return False
        raise ValueError("value syntax at %d: %r" % (pos, s[pos:pos + 20]))

    return val()


TRACE_JAVA = "-Xss1g -Xmx6g -Dtlc2.tool.queue.IStateQueue=StateDeque"


def validate_trace(module, cfg, trace_path, metadir, timeout=1800, env=None):
    """Trace validation: TLC must consume every event; returns (accepted, stdout, seconds)."""
    e = {"TRACE": trace_path}
    if env:
        e.update(env)
    rc, out, dt = tlc(module, cfg, metadir, workers=1, env=e, timeout=timeout, java_opts=TRACE_JAVA)
    accepted = '<<"ACCEPTED"' in out
    return accepted, out, dt


# ----------------------------------------------------------------------------------------------
# known findings, verdict lines, evidence

def load_known():
    p = os.path.join(VERIF, "known_findings.json")
    if not os.path.exists(p):
        return []
    with open(p) as f:
        return json.load(f).get("findings", [])


def classify(prop, violations):
    """violations: list of dicts with 'signature', 'what', 'replay'.  Returns (new, known)."""
    import fnmatch
    known = [k for k in load_known() if k.get("property") == prop and k.get("status") == "open"]
    new, hit = [], {}
    for v in violations:
        k = None
        for cand in known:
            # a finding's signature may end in a glob for the residue part; the property, the
            # violated law and the operation kind are always spelled out
            # '[' is a literal in signatures (paths like .inames[][]), never a character class
            if fnmatch.fnmatchcase(v["signature"], cand["signature"].replace("[", "[[]")):
                k = cand
                break
        if k is not None:
            hit.setdefault(k["signature"], {"finding": k, "count": 0})
            hit[k["signature"]]["count"] += 1
        else:
            new.append(v)
    return new, hit


def write_replay(prop, name, payload):
    d = os.path.join(WORK, prop)
    os.makedirs(d, exist_ok=True)
    p = os.path.join(d, name)
    with open(p, "w") as f:
        json.dump(payload, f, indent=1)
    return p


def write_evidence(prop, tier, seed, level, coverage, assumptions, wall_s, violations, extra=None):
    os.makedirs(EVID, exist_ok=True)
    ev = {"property_id": prop, "tier": tier, "seed": int(seed), "level": level, "coverage": coverage,
          "assumptions": assumptions, "wall_s": round(float(wall_s), 2), "violations": int(violations)}
    if extra:
        ev.update(extra)
    with open(os.path.join(EVID, prop + ".json"), "w") as f:
        json.dump(ev, f, indent=1)
    return ev


def finish(prop, tier, seed, level, coverage, assumptions, wall_s, violations):
    """Prints the verdict lines, writes the evidence file, returns the exit code."""
    new, hit = classify(prop, violations)
    for sig, h in sorted(hit.items()):
        print(f"KNOWN-FINDING: property={prop} {h['finding'].get('what', sig)} [signature {sig}; {h['count']} occurrence(s) in this run]")
    seen = set()
    for v in new:
        if v["signature"] in seen:
            continue
        seen.add(v["signature"])
        print(f"VIOLATION property={prop} replay={v.get('replay', '')}")
        log(f"  signature: {v['signature']}\n  what: {v.get('what', '')}")
    coverage = dict(coverage)
    coverage["known_findings_hit"] = {s: h["count"] for s, h in hit.items()}
    coverage["new_violation_signatures"] = sorted(seen)
    write_evidence(prop, tier, seed, level, coverage, assumptions, wall_s, len(new))
    return 1 if new else 0


def norm_path(p):
    p = re.sub(r"\[\d+\]", "[]", p)
    p = re.sub(r"R\d+C\d+", "R*C*", p)
    p = re.sub(r"\.rows\.\d+", ".rows.*", p)
    p = re.sub(r"\.cols\.\d+", ".cols.*", p)
    return p


def json_diff(a, b, path=""):
    """First differing path between two JSON values and the kind of difference."""
    if isinstance(a, dict) and isinstance(b, dict):
        for k in sorted(set(a) | set(b)):
            if k not in a:
                return f"{path}.{k}", "extra", b[k]
            if k not in b:
                return f"{path}.{k}", "missing", a[k]
            d = json_diff(a[k], b[k], f"{path}.{k}")
            if d:
                return d
        return None
    if isinstance(a, list) and isinstance(b, list):
        for i in range(max(len(a), len(b))):
            if i >= len(a):
                return f"{path}[{i}]", "extra", b[i]
            if i >= len(b):
                return f"{path}[{i}]", "missing", a[i]
            d = json_diff(a[i], b[i], f"{path}[{i}]")
            if d:
                return d
        return None
    if a != b:
        return path, "changed", [a, b]
    return None
