#!/bin/bash
# usage: bin/try_seeded.sh <seeded-id> <property-to-check> [tier]
# applies /verif/seeded/<id>/patch.diff to /repo, runs the check, and always restores /repo
id=$1; prop=$2; tier=${3:-quick}
cd /repo || exit 2
if ! git diff --quiet; then echo "/repo has uncommitted changes"; exit 2; fi
git apply /verif/seeded/$id/patch.diff || { echo "patch does not apply"; exit 2; }
cd /verif
VERIF_WORK=/tmp/tlcw/seedwork VERIF_EVIDENCE=/tmp/tlcw/seedevid bin/check $prop --tier $tier > /tmp/tlcw/seeded_$id.$prop.log 2>&1
rc=$?
git -C /repo checkout -- .
echo "seeded=$id check=$prop tier=$tier exit=$rc violations=$(grep -c '^VIOLATION' /tmp/tlcw/seeded_$id.$prop.log)"
grep -A1 "^VIOLATION" /tmp/tlcw/seeded_$id.$prop.log | grep signature | head -5
