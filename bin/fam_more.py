"""Smaller families: selection (C28), structure (C27).  Each has run / evidence_for / replay."""
import json
import os
import re

import fam_history
from vlib import (SPEC, ToolError, cached_run, icverif, log, tla_tuple_lines, tlc, tlc_stats, validate_trace)


def behaviours_from(out, path):
    n = 0
    with open(path, "w") as f:
        for line in out.splitlines():
            if line.startswith('<<"BEHAVIOUR", "'):
                f.write(json.loads(line.strip()[len('<<"BEHAVIOUR", '):-2]) + "\n")
                n += 1
    return n


def action_coverage(out):
    cov = {}
    for line in out.splitlines():
        m = re.match(r"<(\w+) line \d+, col \d+ to line \d+, col \d+ of module (\w+)>: (\d+):(\d+)", line.strip())
        if m:
            cov[m.group(1)] = {"distinct": int(m.group(3)), "taken": int(m.group(4))}
    return cov


def history_side_traces(tier, seed):
    res, d = cached_run("history", tier, seed, lambda wd: fam_history.run(wd, tier, seed))
    return [t for t in res.get("side_traces", []) if os.path.isdir(t)], res


def program_for(tdir, l):
    """The actions of the run containing event l (1-based), up to and including it."""
    progs = [json.loads(x) for x in open(os.path.join(tdir, "prog.ndjson"))]
    start = l - 1
    while start > 0 and progs[start]["ev"] != "reset":
        start -= 1
    return [p["act"] for p in progs[start:l] if p.get("act")], l - 1 - start


# ================================================================================================
# C28 selection

class Selection:
    PROPS = ["C28"]
    ASSUMPTIONS = [
        "the selection is read raw from the public workbook value (views[0].sheet and the selected sheet's view), not through get_selected_view, which masks a dangling sheet index",
        "a range is given by two corners in either order; which sheet becomes selected after deleting/hiding a sheet or undoing a sheet operation is left open (any existing sheet)",
        "exact cell positions are compared only for set_selected_sheet/cell/range, arrow keys and sheet add/duplicate/move, where the property's wording and the API documentation determine them",
    ]

    @staticmethod
    def run(d, tier, seed):
        res = {"violations": {"C28": [], "PANIC": []}}
        rc, out, dt = tlc("MC_Selection.tla", os.path.join(SPEC, "MC_Selection_small.cfg"), os.path.join(d, "m1"), workers=8, timeout=900, coverage=True)
        st = tlc_stats(out)
        if st is None or "Error:" in out or "is violated" in out:
            raise ToolError("MC_Selection (design check) failed:\n" + out[-3000:])
        res["design"] = {"states": st["distinct"], "transitions": st["generated"], "seconds": round(dt, 1), "action_coverage": action_coverage(out)}
        steps = 3 if tier == "quick" else 4
        cfg = os.path.join(d, "beh.cfg")
        with open(cfg, "w") as f:
            f.write(open(os.path.join(SPEC, "MC_Selection_beh.cfg")).read().replace("MaxSteps = 4", f"MaxSteps = {steps}"))
        rc, out, dt = tlc("MC_Selection.tla", cfg, os.path.join(d, "m2"), workers=8, timeout=1500)
        stb = tlc_stats(out)
        if stb is None or "Error:" in out:
            raise ToolError("MC_Selection (behaviours) failed:\n" + out[-3000:])
        bp = os.path.join(d, "beh.ndjson")
        nbeh = behaviours_from(out, bp)
        # second family of behaviours: start from three sheets with any of them selected, sheet-level
        # alphabet (select / add / duplicate / delete / undo / redo), one step deeper
        cfg3 = os.path.join(d, "beh3.cfg")
        with open(cfg3, "w") as f:
            f.write(open(os.path.join(SPEC, "MC_Selection_beh3.cfg")).read().replace("MaxSteps = 4", f"MaxSteps = {steps + 1}"))
        rc, out3, dt3 = tlc("MC_Selection.tla", cfg3, os.path.join(d, "m2b"), workers=8, timeout=1500)
        stb3 = tlc_stats(out3)
        if stb3 is None or "Error:" in out3:
            raise ToolError("MC_Selection (3-sheet behaviours) failed:\n" + out3[-3000:])
        bp3 = os.path.join(d, "beh3.ndjson")
        nbeh += behaviours_from(out3, bp3)
        with open(bp, "a") as f:
            f.write(open(bp3).read())
        stb = {"distinct": stb["distinct"] + stb3["distinct"], "generated": stb["generated"] + stb3["generated"]}
        dt += dt3
        rdir = os.path.join(d, "replay")
        rr, dt2 = icverif(["behreplay", "--family", "selection", "--in", bp, "--out", rdir])
        res["s2i"] = {"behaviours": nbeh, "steps": steps, "steps_executed": rr["steps_executed"], "mismatches": rr["mismatches"],
                      "other_branch": rr["other_branch"], "guard_mismatch": rr["guard_mismatch"], "by_op": rr["by_op"],
                      "distinct_nontrivial": rr["distinct_nontrivial"], "samples": rr["samples"][:1],
                      "tlc_states": stb["distinct"], "tlc_transitions": stb["generated"], "seconds": round(dt + dt2, 1)}
        seen = {}
        for line in open(os.path.join(rdir, "mismatches.ndjson")):
            m = json.loads(line)
            prop = m["property"] if m["property"] in ("C28", "PANIC") else "C28"
            sig = f"{prop}|{m['why']}|{m['subject']}"
            if sig in seen:
                seen[sig]["count"] += 1
                continue
            what = f"selection after {m['subject']}: {m['why']} ({m.get('detail', '')})"
            v = {"signature": sig, "what": what, "count": 1,
                 "payload": {"property": prop, "family": "selection", "signature": sig, "what": what, "direction": "S->I",
                             "program": [{"act": "op", "a": a} for a in m["program"]], "spec_behaviour": m["behaviour"], "failing_step": m["step"]}}
            seen[sig] = v
            res["violations"][prop].append(v)
        # I->S: SelOK on every logged selection state: the replayed behaviours, catalogue histories,
        # and navigation-heavy histories
        traces = [(os.path.join(rdir, "view.ndjson"), None)]
        side, _ = history_side_traces(tier, seed)
        for t in side:
            traces.append((os.path.join(t, "view.ndjson"), t))
        navdir = os.path.join(d, "nav")
        summ, _ = icverif(["histrec", "--seed", seed + 77, "--runs", 30 if tier == "quick" else 300, "--steps", 200, "--out", navdir, "--nav", "--navheavy", "--calm", "--edge"])
        traces.append((os.path.join(navdir, "view.ndjson"), navdir))
        res["i2s"] = {"events": 0, "traces": 0, "violations_printed": 0, "seconds": 0}
        for tp, tdir in traces:
            if tdir is None and nbeh * steps > 60000:
                continue  # the replayed behaviours are already compared step by step above
            ok, out, dtv = validate_trace("TraceSelection.tla", os.path.join(SPEC, "TraceSelection.cfg"), tp, os.path.join(d, "m3"))
            if not ok:
                raise ToolError("TraceSelection did not consume the whole trace:\n" + out[-3000:])
            st = tlc_stats(out)
            res["i2s"]["events"] += st["distinct"] - 1
            res["i2s"]["traces"] += 1
            res["i2s"]["seconds"] += round(dtv, 1)
            for v in tla_tuple_lines(out, "VIOL"):
                _, l, prop, why, kind, r = v[:6]
                res["i2s"]["violations_printed"] += 1
                sig = f"C28|{why}|{kind}"
                if sig in seen:
                    seen[sig]["count"] += 1
                    continue
                program, k = program_for(tdir, l) if tdir else ([], 0)
                what = f"selection after {kind} ({r}): {why}"
                vv = {"signature": sig, "what": what, "count": 1,
                      "payload": {"property": "C28", "family": "selection", "signature": sig, "what": what, "direction": "I->S",
                                  "program": program, "failing_event": k}}
                seen[sig] = vv
                res["violations"]["C28"].append(vv)
        return res

    @staticmethod
    def evidence_for(prop, res):
        d, s, i = res["design"], res["s2i"], res["i2s"]
        return {"states": d["states"] + s["tlc_states"], "transitions": d["transitions"] + s["tlc_transitions"],
                "traces_validated_against_impl": s["behaviours"] + i["traces"],
                "samples": s["samples"], "evaluations": s["steps_executed"] + i["events"], "distinct_nontrivial": s["distinct_nontrivial"],
                "rule": "S->I: every behaviour of MC_Selection of the stated length replayed, selection compared after every step; distinct_nontrivial = distinct (operation, preceding operation sequence) pairs whose step changed the selection state. I->S: SelOK evaluated by TLC on every logged selection state.",
                "design_model": {"module": "Selection.tla", "invariant": "SelOK", "distinct_states": d["states"], "action_coverage": d["action_coverage"]},
                "spec_to_impl": {k: s[k] for k in ("behaviours", "steps", "steps_executed", "mismatches", "other_branch", "guard_mismatch", "by_op")},
                "impl_to_spec": i, "exhaustive": False}


# ================================================================================================
# C27 structure

class Structure:
    PROPS = ["C27"]
    ASSUMPTIONS = [
        "the structural projection (harness/src/project.rs `wf`) reads the public `workbook` value: raw indices, pool sizes, descriptor lists, array anchors, spill cells, defined-name scopes",
        "spill-range conditions are evaluated on states reached after evaluation (the recorded histories never pause evaluation)",
        "whether a defined name's formula mentions only existing sheets is not part of this check; its scope is",
    ]

    @staticmethod
    def run(d, tier, seed):
        res = {"violations": {"C27": []}}
        side, hres = history_side_traces(tier, seed)
        res["i2s"] = {"events": 0, "traces": 0, "violations_printed": 0, "seconds": 0, "kinds": hres["i2s"]["kinds"], "results": hres["i2s"]["results"]}
        seen = {}
        samples = []
        for tdir in side:
            tp = os.path.join(tdir, "wf.ndjson")
            ok, out, dtv = validate_trace("TraceWellFormed.tla", os.path.join(SPEC, "TraceWellFormed.cfg"), tp, os.path.join(d, "m"))
            if not ok:
                raise ToolError("TraceWellFormed did not consume the whole trace:\n" + out[-3000:])
            st = tlc_stats(out)
            res["i2s"]["events"] += st["distinct"] - 1
            res["i2s"]["traces"] += 1
            res["i2s"]["seconds"] += round(dtv, 1)
            if not samples:
                with open(tp) as f:
                    for n, line in enumerate(f):
                        if n == 40:
                            samples.append(json.loads(line))
                            break
            subj = None
            for v in tla_tuple_lines(out, "VIOL"):
                _, l, prop, why, kind, r = v[:6]
                res["i2s"]["violations_printed"] += 1
                if kind in ("undo", "redo"):
                    if subj is None:
                        subj, _ = fam_history.mirror([json.loads(x) for x in open(os.path.join(tdir, "hist.ndjson"))])
                    kind = f"{kind}:{subj.get(l, '')}"
                sig = f"C27|{why}|{kind}"
                if sig in seen:
                    seen[sig]["count"] += 1
                    continue
                program, k = program_for(tdir, l)
                what = f"workbook structure after {kind} ({r}): {why}"
                vv = {"signature": sig, "what": what, "count": 1,
                      "payload": {"property": "C27", "family": "structure", "signature": sig, "what": what, "direction": "I->S",
                                  "program": program, "failing_event": k}}
                seen[sig] = vv
                res["violations"]["C27"].append(vv)
        res["samples"] = samples
        return res

    @staticmethod
    def evidence_for(prop, res):
        i = res["i2s"]
        return {"states": i["events"] + i["traces"], "transitions": i["events"], "traces_validated_against_impl": i["traces"],
                "samples": res["samples"] or [{"note": "no sample"}],
                "evaluations": i["events"], "distinct_nontrivial": len([k for k, n in i["kinds"].items() if n > 0]),
                "rule": "WellFormed (TraceWellFormed.tla) evaluated by TLC on the structural projection logged after every public call of the recorded catalogue histories (successful and failed calls, undo, redo, flush, replica application, reload); distinct_nontrivial = distinct operation kinds (with argument class) executed.",
                "impl_to_spec": i, "exhaustive": False}


def _wrap(cls, name):
    class M:
        PROPS = cls.PROPS
        ASSUMPTIONS = cls.ASSUMPTIONS
        run = staticmethod(cls.run)
        evidence_for = staticmethod(cls.evidence_for)

        @staticmethod
        def replay(prop, path):
            return fam_history.replay(prop, path)
    return (name, M)


TABLE = {"C28": _wrap(Selection, "selection"), "C27": _wrap(Structure, "structure")}
