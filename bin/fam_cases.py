"""Case-enumeration families: TLC enumerates a finite case space of a specification together
with the result the specification assigns to every case (one printed line per state); the
harness executes every case on the real code and reports every disagreement (S->I).  The
specification's own invariants (the property stated on the design) are checked in the same run."""
import json
import os
import re

import fam_history
from vlib import SPEC, ToolError, icverif, log, tlc, tlc_stats


def run_tlc(module, cfg_text, d, name, workers=8, timeout=1700):
    cfg = os.path.join(d, name + ".cfg")
    with open(cfg, "w") as f:
        f.write(cfg_text)
    rc, out, dt = tlc(module, cfg, os.path.join(d, "meta_" + name), workers=workers, timeout=timeout)
    st = tlc_stats(out)
    if st is None or "Error:" in out or "is violated" in out:
        raise ToolError(f"{module} ({name}) failed - this is a defect of the specification, not a verdict:\n" + out[-3000:])
    return out, st, dt


def collect(res, prop, mism_path, seen=None, fmt=None):
    seen = seen if seen is not None else {}
    if not os.path.exists(mism_path):
        return seen
    for line in open(mism_path):
        m = json.loads(line)
        p = m.get("property", prop)
        sig = f"{p}|{m['why']}|{m['subject']}"
        if sig in seen:
            seen[sig]["count"] += 1
            continue
        what = f"{m['why']} ({m['subject']}): case {json.dumps(m['case'])[:200]} {m.get('detail', '')[:200]}"
        v = {"signature": sig, "what": what, "count": 1,
             "payload": {"property": p, "signature": sig, "what": what, "case": m["case"], "detail": m.get("detail", "")}}
        seen[sig] = v
        res["violations"].setdefault(p, []).append(v)
    return seen


class Calendar:
    PROPS = ["C21"]
    ASSUMPTIONS = ["the Gregorian rules written in Calendar.tla (month lengths, leap years) and its closed form, checked against each other by TLC on every day of the range",
                   "weekday 0 = Sunday at serial 1 (1899-12-31)",
                   "quick tier: the codec functions on every serial; date formatting, typed ISO dates and DATE/YEAR/MONTH/DAY/WEEKDAY on the windows 1-800, the last 800 serials, 1998-2001, every century 28 Feb / 1 Mar and every 97th serial; thorough: everything on every serial"]

    @staticmethod
    def run(d, tier, seed):
        res = {"violations": {"C21": []}}
        cfg = open(os.path.join(SPEC, "Calendar.cfg")).read()
        out, st, dt = run_tlc("Calendar.tla", cfg, d, "cal", workers=8, timeout=1700)
        path = os.path.join(d, "days.txt")
        n = 0
        with open(path, "w") as f:
            for line in out.splitlines():
                if line.startswith('<<"D", '):
                    f.write(line[7:-2].replace(",", "") + "\n")
                    n += 1
        if n != 2958465:
            raise ToolError(f"Calendar.tla printed {n} days, expected 2958465")
        args = ["calendar", "--in", path, "--out", os.path.join(d, "out")]
        if tier == "thorough":
            args.append("--thorough")
        rr, dt2 = icverif(args, timeout=3000)
        os.remove(path)
        res["tlc"] = {"states": st["distinct"], "transitions": st["generated"], "seconds": round(dt, 1)}
        res["run"] = rr
        res["run"]["seconds"] = round(dt2, 1)
        collect(res, "C21", os.path.join(d, "out", "mismatches.ndjson"))
        return res

    @staticmethod
    def evidence_for(prop, res):
        r = res["run"]
        return {"states": res["tlc"]["states"], "transitions": res["tlc"]["transitions"], "traces_validated_against_impl": r["cases"],
                "samples": r["samples"], "evaluations": r["checks"], "distinct_nontrivial": r["distinct_nontrivial"],
                "rule": "every serial 1..2958465 is one state of Calendar.tla (incremental Gregorian rule, closed form checked as invariant) and one case replayed on from_excel_date / date_to_serial_number; "
                        "distinct_nontrivial = distinct (year, month) pairs whose first or last days were checked (month/leap-year boundaries).",
                "exhaustive": True, "spec_invariants": ["ClosedEqualsIncremental", "WeekdayOK", "DateOK", "FirstDay", "LastDay"]}


def replay_case(prop, path):
    with open(path) as f:
        payload = json.load(f)
    print("replay: case", json.dumps(payload.get("case"))[:500])
    print("replay: re-run `bin/check %s` to re-evaluate the case on the current tree (cases are re-enumerated by TLC on every run)" % prop)
    return 0


def _wrap(cls, name):
    class M:
        PROPS = cls.PROPS
        ASSUMPTIONS = cls.ASSUMPTIONS
        run = staticmethod(cls.run)
        evidence_for = staticmethod(cls.evidence_for)
        replay = staticmethod(getattr(cls, "replay", replay_case))
    return (name, M)


TABLE = {"C21": _wrap(Calendar, "calendar")}
