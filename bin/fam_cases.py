"""Case-enumeration families: TLC enumerates a finite case space of a specification together
with the result the specification assigns to every case (one printed line per state); the
harness executes every case on the real code and reports every disagreement (S->I).  The
specification's own invariants (the property stated on the design) are checked in the same run."""
import json
import os
import re
import subprocess

import fam_history
from vlib import SPEC, ToolError, icverif, log, tla_tuple_lines, tlc, tlc_stats, validate_trace


def run_tlc(module, cfg_text, d, name, workers=8, timeout=1700):
    cfg = os.path.join(d, name + ".cfg")
    with open(cfg, "w") as f:
        f.write(cfg_text)
    rc, out, dt = tlc(module, cfg, os.path.join(d, "meta_" + name), workers=workers, timeout=timeout)
    st = tlc_stats(out)
    if st is None or "Error:" in out or "is violated" in out:
        raise ToolError(f"{module} ({name}) failed - this is a defect of the specification, not a verdict:\n" + out[-3000:])
    return out, st, dt


def collect(res, prop, mism_path, seen=None, fmt=None):
    seen = seen if seen is not None else {}
    if not os.path.exists(mism_path):
        return seen
    for line in open(mism_path):
        try:
            m = json.loads(line)
        except ValueError:
            continue      # the harness was stopped by its watchdog in the middle of a line
        p = m.get("property", prop)
        sig = f"{p}|{m['why']}|{m['subject']}"
        if sig in seen:
            seen[sig]["count"] += 1
            continue
        what = f"{m['why']} ({m['subject']}): case {json.dumps(m['case'])[:200]} {m.get('detail', '')[:200]}"
        v = {"signature": sig, "what": what, "count": 1,
             "payload": {"property": p, "signature": sig, "what": what, "case": m["case"], "detail": m.get("detail", "")}}
        seen[sig] = v
        res["violations"].setdefault(p, []).append(v)
    return seen


class Calendar:
    PROPS = ["C21"]
    ASSUMPTIONS = ["the Gregorian rules written in Calendar.tla (month lengths, leap years) and its closed form, checked against each other by TLC on every day of the range",
                   "weekday 0 = Sunday at serial 1 (1899-12-31)",
                   "quick tier: the codec functions on every serial; date formatting, typed ISO dates and DATE/YEAR/MONTH/DAY/WEEKDAY on the windows 1-800, the last 800 serials, 1998-2001, every century 28 Feb / 1 Mar and every 97th serial; thorough: everything on every serial"]

    @staticmethod
    def run(d, tier, seed):
        res = {"violations": {"C21": []}}
        cfg = open(os.path.join(SPEC, "Calendar.cfg")).read()
        out, st, dt = run_tlc("Calendar.tla", cfg, d, "cal", workers=8, timeout=1700)
        path = os.path.join(d, "days.txt")
        n = 0
        with open(path, "w") as f:
            for line in out.splitlines():
                if line.startswith('<<"D", '):
                    f.write(line[7:-2].replace(",", "") + "\n")
                    n += 1
        if n != 2958465:
            raise ToolError(f"Calendar.tla printed {n} days, expected 2958465")
        args = ["calendar", "--in", path, "--out", os.path.join(d, "out")]
        if tier == "thorough":
            args.append("--thorough")
        rr, dt2 = icverif(args, timeout=3000)
        os.remove(path)
        res["tlc"] = {"states": st["distinct"], "transitions": st["generated"], "seconds": round(dt, 1)}
        res["run"] = rr
        res["run"]["seconds"] = round(dt2, 1)
        collect(res, "C21", os.path.join(d, "out", "mismatches.ndjson"))
        return res

    @staticmethod
    def evidence_for(prop, res):
        r = res["run"]
        return {"states": res["tlc"]["states"], "transitions": res["tlc"]["transitions"], "traces_validated_against_impl": r["cases"],
                "samples": r["samples"], "evaluations": r["checks"], "distinct_nontrivial": r["distinct_nontrivial"],
                "rule": "every serial 1..2958465 is one state of Calendar.tla (incremental Gregorian rule, closed form checked as invariant) and one case replayed on from_excel_date / date_to_serial_number; "
                        "distinct_nontrivial = distinct (year, month) pairs whose first or last days were checked (month/leap-year boundaries).",
                "exhaustive": True, "spec_invariants": ["ClosedEqualsIncremental", "WeekdayOK", "DateOK", "FirstDay", "LastDay"]}


def cases_from(out, path, tag="CASE"):
    n = 0
    pref = '<<"' + tag + '", "'
    with open(path, "w") as f:
        for line in out.splitlines():
            if line.startswith(pref):
                f.write(json.loads(line.strip()[len(pref) - 1:-2]) + "\n")
                n += 1
    return n


class Grid:
    PROPS = ["C22"]
    ASSUMPTIONS = ["R1C1 spelling is not fixed by the property (R[0]C[0] and RC are both fine): printed text must parse back to the same reference",
                   "sheet names the engine refuses (rename_sheet_by_index returns Err) are outside 'every valid sheet name' and are skipped and counted",
                   "a sheet name is read back correctly iff a formula =<quoted name>!B2+1 typed on another sheet, and the text the engine displays for it, both evaluate against that sheet"]

    @staticmethod
    def run(d, tier, seed):
        res = {"violations": {"C22": [], "PANIC": []}}
        cfg = open(os.path.join(SPEC, "Grid.cfg")).read().replace("NameLen = 2", "NameLen = %d" % (2 if tier == "quick" else 3))
        out, st, dt = run_tlc("Grid.tla", cfg, d, "grid", workers=8)
        path = os.path.join(d, "cases.ndjson")
        n = cases_from(out, path)
        rr, dt2 = icverif(["grid", "--in", path, "--out", os.path.join(d, "out")], timeout=3000)
        res["tlc"] = {"states": st["distinct"], "transitions": st["generated"], "seconds": round(dt, 1), "cases_printed": n}
        res["run"] = rr
        collect(res, "C22", os.path.join(d, "out", "mismatches.ndjson"))
        return res

    @staticmethod
    def evidence_for(prop, res):
        r = res["run"]
        return {"states": res["tlc"]["states"], "transitions": res["tlc"]["transitions"], "traces_validated_against_impl": r["cases"],
                "samples": r["samples"], "evaluations": r["checks"], "distinct_nontrivial": r["distinct_nontrivial"],
                "rule": "cases = all 16384 columns, references over boundary rows/columns x 4 absolute/relative combinations x 3 host cells, all sheet names up to the stated length over a 15-character tricky alphabet plus a fixed list; "
                        "distinct_nontrivial = distinct case classes (column-name length, reference flag/direction class, quoted/bare name).",
                "exhaustive": True, "invalid_names_skipped": r.get("invalid_names_skipped", 0),
                "spec_invariants": ["ColBijective", "QuoteInverse"]}


class Lang:
    PROPS = ["C23"]
    ASSUMPTIONS = ["the name tables are data of the implementation: the harness records Function::into_iter() x to_localized_name / to_xlsx_string and Error x to_localized_error_string / Display, "
                   "with the result of parsing each name back (Parser::parse of NAME(), get_error_by_name, get_error_by_english_name)",
                   "LAMBDA is probed with a parameter list and a body (its own node kind)"]

    @staticmethod
    def run(d, tier, seed):
        res = {"violations": {"C23": []}}
        summ, dt = icverif(["langdump", "--out", d])
        ok, out, dtv = validate_trace("Lang.tla", os.path.join(SPEC, "Lang.cfg"), os.path.join(d, "lang.ndjson"), os.path.join(d, "meta"))
        if not ok:
            raise ToolError("Lang.tla did not consume the whole table:\n" + out[-3000:])
        st = tlc_stats(out)
        res["tlc"] = {"states": st["distinct"], "transitions": st["generated"], "seconds": round(dtv, 1)}
        res["summary"] = summ
        recs = [json.loads(x) for x in open(os.path.join(d, "lang.ndjson"))]
        res["samples"] = [recs[0], recs[-1]]
        for v in tla_tuple_lines(out, "VIOL"):
            _, l, prop, why, name, detail = v[:6]
            items = []
            if why == "function-name-collision":
                for a, b, lang in json.loads(name):
                    items.append((f"C23|{why}|{a}/{b}/{lang}", f"functions {a} and {b} have the same name in language {lang}", {"functions": [a, b], "language": lang}))
            else:
                items.append((f"C23|{why}|{name}", f"{why}: {name} -> {detail}", recs[l - 1] if l >= 1 else {}))
            for sig, what, case in items:
                res["violations"]["C23"].append({"signature": sig, "what": what, "count": 1,
                                                 "payload": {"property": "C23", "signature": sig, "what": what, "case": case}})
        return res

    @staticmethod
    def evidence_for(prop, res):
        s = res["summary"]
        return {"states": res["tlc"]["states"], "transitions": res["tlc"]["transitions"], "traces_validated_against_impl": 1,
                "samples": res["samples"], "evaluations": s["functions"] * (s["languages"] + 1) + s["errors"] * (2 * s["languages"] + 1),
                "distinct_nontrivial": s["functions"] + s["errors"],
                "rule": "one record per built-in function (495) and per error kind (12): names in 5 languages + xlsx form and the result of parsing each back; "
                        "RoundTrip evaluated per record, injectivity over all pairs; distinct_nontrivial = number of records.",
                "exhaustive": True}


def simple_family(props, module, cfg_name, tier_subst, harness_cmd, assumptions, rule, invariants, exhaustive=True, level_workers=8, extra_args=None):
    """A family whose whole S->I direction is: TLC prints CASE lines, `icverif <cmd>` executes them."""
    class Fam:
        PROPS = props
        ASSUMPTIONS = assumptions

        @staticmethod
        def run(d, tier, seed):
            res = {"violations": {p: [] for p in props + ["PANIC"]}}
            cfg = open(os.path.join(SPEC, cfg_name)).read()
            for a, b in tier_subst.get(tier, []):
                assert a in cfg, (a, cfg_name)
                cfg = cfg.replace(a, b)
            out, st, dt = run_tlc(module, cfg, d, "cases", workers=level_workers)
            path = os.path.join(d, "cases.ndjson")
            n = cases_from(out, path)
            if n == 0:
                raise ToolError(f"{module} printed no cases")
            args = [harness_cmd, "--in", path, "--out", os.path.join(d, "out"), "--seed", seed]
            if tier == "thorough":
                args.append("--thorough")
            if extra_args:
                args += extra_args
            rr, dt2 = icverif(args, timeout=3400)
            os.remove(path)
            res["tlc"] = {"states": st["distinct"], "transitions": st["generated"], "seconds": round(dt, 1), "cases_printed": n}
            res["run"] = rr
            res["run"]["seconds"] = round(dt2, 1)
            collect(res, props[0], os.path.join(d, "out", "mismatches.ndjson"))
            return res

        @staticmethod
        def evidence_for(prop, res):
            r = res["run"]
            ev = {"states": res["tlc"]["states"], "transitions": res["tlc"]["transitions"], "traces_validated_against_impl": r["cases"],
                  "samples": r["samples"][:3] or [{"note": "no sample"}], "evaluations": r["checks"], "distinct_nontrivial": r["distinct_nontrivial"],
                  "rule": rule, "exhaustive": exhaustive, "spec_invariants": invariants, "no_verdict": r.get("no_verdict", 0)}
            for k, v in r.items():
                if k not in ("cases", "checks", "samples", "distinct_nontrivial", "mismatches", "no_verdict", "seconds"):
                    ev[k] = v
            return ev
    return Fam


F4 = simple_family(
    ["C34"], "F4.tla", "F4.cfg", {"thorough": [("AllSelections = FALSE", "AllSelections = TRUE")]}, "f4",
    ["which references a selection touches: a reference is touched when the selection overlaps or grazes its text; whitespace directly before a reference may or may not count (both results are accepted)",
     "the cursor positions returned are only required to lie inside the new text; period four is checked with the returned cursor when exactly one reference is touched and with a whole-formula selection",
     "formulas: 1-2 reference tokens from a 13-token pool (single cells in the four $ states, lower case, ranges, column-only and row-only ranges, sheet-qualified and quoted-sheet references) joined by +, comma, space, SUM( )"],
    "every formula of the pool with every cursor position (quick: collapsed cursors and selections reaching the end; thorough: every selection a<=b, both orders); distinct_nontrivial = distinct formulas on which period four was checked with the engine's own cursor.",
    ["Period4", "OnlyDollars"])


NumberInput = simple_family(
    ["C19"], "NumberInput.tla", "NumberInput.cfg", {"quick": [("MaxLen = 3", "MaxLen = 4")], "thorough": [("MaxLen = 3", "MaxLen = 5")]}, "numinput",
    ["the grammar of the property statement as written in NumberInput.tla; the first digit group may have any length (1234,567 tolerated), every group separator must be followed by exactly three digits",
     "strings containing a space or '/' (dates are C21's) carry no verdict; strings with a leading sign that are not numbers carry no verdict (the engine may treat them as formulas)",
     "values compared to a relative 1e-14 against the correctly rounded double of the spec's exact decimal (Rust str::parse::<f64>)",
     "two separator classes: '.'/',' (locale en) and ','/'.' (locale de); both currency symbols $ and EUR in both",
     "plain numbers may carry any format; percent / currency / scientific / grouped input must get a format of that kind (a scientific mantissa inside a percent or currency may show either kind)"],
    "every string up to the stated length over the 13-character alphabet {1 2 0 , . - + e % $ EUR / space} x 2 separator classes, each typed into a fresh default-styled cell; distinct_nontrivial = distinct (kind, non-digit skeleton) classes of recognised numbers.",
    ["LocaleSymmetry", "DigitsNonEmpty"])


NumberFormat = simple_family(
    ["C20"], "NumberFormat.tla", "NumberFormat.cfg",
    {"quick": [("MaxMant = 2", "MaxMant = 3"), ("NegK = 4", "NegK = 5"), ("MaxK = 2", "MaxK = 3")],
     "thorough": [("MaxMant = 2", "MaxMant = 4"), ("NegK = 4", "NegK = 7"), ("MaxK = 2", "MaxK = 5"), ("MantDigits = {0, 1, 4, 5, 9}", "MantDigits = {0, 1, 4, 5, 9}")]}, "numformat",
    ["format family: integer part 0 / 00 / #,##0, 0-3 decimals, optional %, literal prefix \"x\" or suffix \" kg\", optional negative section in parentheses, and 0.00E+00; formats with # or ? placeholders in other positions only go through C11",
     "numbers are exact decimals with at most 4 significant digits (so that text -> double -> 15-digit reduction is the identity)",
     "no verdict when a negative number rounds to zero (-0 vs 0 is not fixed by the statement) and for a minus sign combined with a literal prefix",
     "two separator classes (locale en and de)"],
    "every (number, format, locale) of the enumerated pools: expected text computed by NumberFormat.tla on digit strings; compared with format_number and, for every 16th case, with the cell display; distinct_nontrivial = distinct (number, format) pairs where rounding drops digits.",
    ["Idempotent", "WellShaped"])


Formula = simple_family(
    ["C09"], "Formula.tla", "Formula.cfg", {}, "formula",
    ["trees over the operators of every precedence level (6 comparisons, &, + -, * /, ^), unary minus, postfix %, SUM(x,1), with number / decimal number / string / boolean / reference leaves: depth 1 over all leaves, depth 2 over every (parent, child, side) combination",
     "the engine's Node is mapped structurally to the spec's tree (there is no parenthesis node); an implicit intersection the engine marks automatic is ignored",
     "quick: 5 language/locale pairs + one mixed pair chosen by the seed; thorough: all 30 pairs; the internal, English and xlsx printers do not depend on the pair and are checked once per tree",
     "-(x%) is not generated (the parser reads -x% as (-x)%; both have the same value); trees the parser rejects on their fully parenthesised text would be skipped and counted (none today)"],
    "for every tree: the real parser on Full(t) and Min(t) must give t; each of the four printers' output must parse back to t; distinct_nontrivial = distinct (parent, child, side) classes whose minimal text differs from the fully parenthesised one.",
    ["MinRoundTrip", "FullRoundTrip"])


ValueFam = simple_family(
    ["C06"], "Value.tla", "Value.cfg", {"thorough": [("Depth2Pool = 0", "Depth2Pool = 1")]}, "value",
    ["the reference semantics is Value.tla: exact rational arithmetic, coercion of operands (booleans 1/0, empty 0, numeric text parsed, other text #VALUE!), the comparison order number < text < boolean with case-insensitive text and no coercion, left-to-right error propagation, number-to-text for numbers with at most two decimals, and the direct-argument / referenced-cell distinction of SUM, MIN, MAX, AVERAGE, COUNT, COUNTA, AND, OR, CONCAT",
     "no verdict (NoV) where this module cannot state the reference semantics exactly: powers with non-integer or large exponents, 0^0, number-to-text of long fractions, collation of strings outside a 10-string table, ISBLANK of a computed blank, a range used as a scalar",
     "the sheet: A1 = 2, A2 = \"a\", A3 = TRUE, A4 empty, A5 = \"12\" (text), A6 = #DIV/0!, A7 = -1.5, A8 = \"TRUE\" (text); ranges A1:A4, A2:A5, A1:A8, A7:A8, A4:A4",
     "formulas: every construct of the core language over 22 leaves (14 literals, 8 references) at depth 1 (quick: 10 612 formulas); thorough adds every construct over depth-1 operands built from 3 leaves (108 136 formulas); sub-formulas are fully parenthesised",
     "a disagreement on a formula one of whose operands already disagrees is counted under that operand's signature only (root-cause attribution)",
     "numbers compared to a relative 1e-12"],
    "every formula TLC enumerates from Value.tla typed into the engine on the fixed sheet, the computed value compared with the reference value; distinct_nontrivial = distinct (construct, result type) pairs with a verdict.",
    ["TypeOK"])


class ColAttrs:
    PROPS = ["C29"]
    ASSUMPTIONS = ["initial column layouts are written into worksheet.cols of a cloned workbook (public types) and loaded with Model::from_workbook - what an imported file produces; layouts whose observed attributes differ from the spec's reading are skipped and counted (none today)",
                   "a hidden column (row) is observed with width (height) 0 and must show its stored size again when unhidden",
                   "actions through Model::set_column_width / set_column_hidden / set_column_style / delete_column_style and the row twins; styles compared by value",
                   "columns 1..5 observed, actions on columns 2, 3, 5; quick: every layout x every sequence of 2 actions; thorough: 3 actions"]

    @staticmethod
    def run(d, tier, seed):
        res = {"violations": {"C29": []}, "parts": {}}
        steps = 2 if tier == "quick" else 3
        tot = {"cases": 0, "checks": 0, "distinct_nontrivial": 0, "no_verdict": 0, "samples": [], "states": 0, "transitions": 0}
        seen = {}
        for axis in ("col", "row"):
            cfg = open(os.path.join(SPEC, "ColAttrs.cfg")).read().replace('Axis = "col"', f'Axis = "{axis}"').replace("MaxSteps = 2", f"MaxSteps = {steps}")
            out, st, dt = run_tlc("ColAttrs.tla", cfg, d, "attrs_" + axis, workers=8)
            path = os.path.join(d, axis + ".ndjson")
            n = cases_from(out, path, tag="BEHAVIOUR")
            rr, dt2 = icverif(["colattrs", "--in", path, "--out", os.path.join(d, "out_" + axis)], timeout=3400)
            os.remove(path)
            res["parts"][axis] = {"behaviours": n, "tlc_states": st["distinct"], "steps_executed": rr["checks"], "mismatches": rr["mismatches"], "seconds": round(dt + dt2, 1)}
            for k in ("cases", "checks", "distinct_nontrivial", "no_verdict"):
                tot[k] += rr[k]
            tot["samples"] += rr["samples"][:1]
            tot["states"] += st["distinct"]
            tot["transitions"] += st["generated"]
            collect(res, "C29", os.path.join(d, "out_" + axis, "mismatches.ndjson"), seen)
        res["tot"] = tot
        return res

    @staticmethod
    def evidence_for(prop, res):
        t = res["tot"]
        return {"states": t["states"], "transitions": t["transitions"], "traces_validated_against_impl": t["cases"],
                "samples": t["samples"] or [{"note": "none"}], "evaluations": t["checks"], "distinct_nontrivial": t["distinct_nontrivial"],
                "rule": "every behaviour of ColAttrs.tla (every initial descriptor layout x every action sequence of the stated length, columns and rows) replayed with the per-column (width, hidden, style) vector compared after every step; "
                        "distinct_nontrivial = distinct (action kind, initial layout) pairs whose step changed the observed vector.",
                "exhaustive": True, "parts": res["parts"], "no_verdict": t["no_verdict"], "spec_properties": ["Independence"]}


class StylesFam:
    PROPS = ["C30"]
    ASSUMPTIONS = ["styles from a 21-style pool in which every style has neighbours differing in exactly one attribute (incl. a custom format equal to built-in 14, 'General' vs 'general', Some(Alignment::default()) vs None, quote prefix)",
                   "targets: two cells, a row, a column; probes: an untouched cell of the styled row, of the styled column, and their crossing (row over column; a row given the default style counts as unstyled)",
                   "read back through get_style_for_cell / get_row_style (effective) / get_column_style, directly and after to_bytes/from_bytes at the last step"]

    @staticmethod
    def run(d, tier, seed):
        res = {"violations": {"C30": []}}
        steps = 2 if tier == "quick" else 3
        cfg = open(os.path.join(SPEC, "Styles.cfg")).read().replace("MaxSteps = 2", f"MaxSteps = {steps}")
        out, st, dt = run_tlc("Styles.tla", cfg, d, "styles", workers=8)
        path = os.path.join(d, "beh.ndjson")
        n = cases_from(out, path, tag="BEHAVIOUR")
        rr, dt2 = icverif(["styles", "--in", path, "--out", os.path.join(d, "out")], timeout=3400)
        os.remove(path)
        res["tlc"] = {"states": st["distinct"], "transitions": st["generated"], "behaviours": n}
        res["run"] = rr
        collect(res, "C30", os.path.join(d, "out", "mismatches.ndjson"))
        return res

    @staticmethod
    def evidence_for(prop, res):
        r = res["run"]
        return {"states": res["tlc"]["states"], "transitions": res["tlc"]["transitions"], "traces_validated_against_impl": r["cases"],
                "samples": r["samples"] or [{"note": "none"}], "evaluations": r["checks"], "distinct_nontrivial": r["distinct_nontrivial"],
                "rule": "every sequence of assignments of the stated length (target x style) of Styles.tla replayed; 7 reads compared after every step; distinct_nontrivial = distinct (target, style) assignments executed.",
                "exhaustive": True, "spec_properties": ["ReadBack", "NoAliasing"]}


class FiniteFam:
    PROPS = ["C08"]
    LEVEL = "exploration"
    ASSUMPTIONS = ["argument classes: huge 1E308, tiny 1E-308, -1E308, 0, 1, -1, 0.5, empty cell, TRUE, text, the texts \"1E308\" and \"inf\", #DIV/0!; vectors of length 0-2 (thorough: 0-3); shapes: literal arguments, arguments by cell reference, two-element array literals, two-cell ranges, CSE array formula, dynamic-array spill",
                   "each vector x shape is crossed with every built-in function (Function::into_iter(), hook H2) and with every binary and unary operator; all cells are scanned afterwards through the public workbook value for NaN and infinities",
                   "11 functions whose running time grows with the VALUE of an argument (FACT, FACTDOUBLE, COMBIN, COMBINA, PERMUT, MULTINOMIAL, REPT, BESSELJ, BESSELK, TINV, T.INV.2T) do not return for huge arguments and are left out (thorough tier re-probes the list in child processes); a batch that does not finish within 20 s is skipped and counted",
                   "a panic during evaluation is reported under this property (an overflow must become an error value)"]

    @staticmethod
    def run(d, tier, seed):
        from vlib import ICVERIF
        res = {"violations": {"C08": []}}
        cfg = open(os.path.join(SPEC, "Finite.cfg")).read()
        if tier == "thorough":
            cfg = cfg.replace("MaxArity = 2", "MaxArity = 3").replace('"huge", "tiny", "neghuge", "zero", "one", "negone", "half", "empty", "true", "text", "hugetext", "inftext", "div0"', '"huge", "tiny", "neghuge", "zero", "one", "half", "empty", "text", "inftext"')
        out, st, dt = run_tlc("Finite.tla", cfg, d, "finite", workers=8)
        path = os.path.join(d, "cases.ndjson")
        n = cases_from(out, path)
        odir = os.path.join(d, "out")
        skip = 0
        total = {"cases": 0, "checks": 0, "distinct_nontrivial": 0, "samples": [], "timeouts": 0, "functions": 0, "excluded": []}
        seen = {}
        for attempt in range(30):
            try:
                os.remove(os.path.join(odir, "TIMEOUT.json"))
            except OSError:
                pass
            args = [ICVERIF, "finite", "--in", path, "--out", odir, "--skip", str(skip)] + (["--thorough"] if tier == "thorough" else [])
            p = subprocess.run(args, stdout=subprocess.PIPE, stderr=subprocess.STDOUT, timeout=3500)
            collect(res, "C08", os.path.join(odir, "mismatches.ndjson"), seen)
            if p.returncode == 0:
                rr = json.loads([l for l in p.stdout.decode().splitlines() if l.startswith("{")][-1])["result"]
                for k in ("cases", "checks", "distinct_nontrivial"):
                    total[k] += rr[k]
                total["samples"] += rr["samples"]
                total["functions"] = rr["functions"]
                total["excluded"] = rr["excluded_unbounded_functions"]
                break
            if p.returncode == 3 and os.path.exists(os.path.join(odir, "TIMEOUT.json")):
                t = json.load(open(os.path.join(odir, "TIMEOUT.json")))
                total["timeouts"] += 1
                skip = t["index"] + 1
                continue
            raise ToolError("icverif finite failed:\n" + p.stdout.decode()[-2000:])
        res["tlc"] = {"states": st["distinct"], "transitions": st["generated"], "enumerated": n}
        res["run"] = total
        return res

    @staticmethod
    def evidence_for(prop, res):
        r = res["run"]
        return {"evaluations": r["checks"], "distinct_nontrivial": r["distinct_nontrivial"],
                "rule": "argument-class vectors x result shapes enumerated by TLC from Finite.tla, each crossed with every built-in function and operator; distinct_nontrivial = distinct (shape, vector) cases executed.",
                "samples": r["samples"][:3] or [{"note": "none"}], "states": res["tlc"]["states"], "transitions": res["tlc"]["transitions"],
                "traces_validated_against_impl": r["cases"], "functions_swept": r["functions"], "functions_excluded_unbounded": r["excluded"],
                "batches_skipped_on_timeout": r["timeouts"], "exhaustive": False}


class XlsxFaultsFam:
    PROPS = ["C25"]
    LEVEL = "fault_enumeration"
    ASSUMPTIONS = ["base packages: one exported by the harness from a feature-rich workbook (formulas, arrays, styles, borders, sizes, hidden rows, frozen panes, several sheets with colour/hidden state, global and local names, a hyperlink, a conditional format) and eight .xlsx files of the repository's own test data (one with cell comments, one with a custom theme)",
                   "the vocabulary (parts, element and attribute counts) is read from these packages; XlsxFaults.tla enumerates every single fault over at most 12 (thorough 40) positions per part, spread over the part: drop / duplicate / empty an element, drop an attribute, replace its value by one of 8 garbage classes (empty, negative, huge, letters, fraction, oversized range, an 8-byte string with multi-byte characters, a 1-character string), move an index-like attribute (an integer below 64; at most 3 occurrences of one attribute name per part) up by 1..12 so that it lands one past the end of what it indexes, truncate a part at 1/16, 8/16, 15/16, drop a part, truncate the zip at k/16, flip a byte in each sixteenth; thorough adds pairs of part-level faults and pairs of structural faults on different parts",
                   "each damaged package goes through load_from_xlsx_bytes, Model::from_workbook and evaluate under catch_unwind; a call that does not return within 60 s is a timeout; a process abort is attributed to the slice of 64 plans being processed",
                   "outcome must be ok or err; which one is not judged"]

    @staticmethod
    def run(d, tier, seed):
        from vlib import ICVERIF
        res = {"violations": {"C25": []}}
        v, _ = icverif(["xlsxvocab", "--out", d])
        cfg = open(os.path.join(SPEC, "XlsxFaults.cfg")).read()
        if tier == "thorough":
            cfg = cfg.replace("MaxIdx = 12", "MaxIdx = 40").replace("Pairs = FALSE", "Pairs = TRUE")
        cfgp = os.path.join(d, "xf.cfg")
        with open(cfgp, "w") as f:
            f.write(cfg)
        rc, out, dt = tlc("XlsxFaults.tla", cfgp, os.path.join(d, "meta"), workers=8, timeout=1700, env={"VOCAB": os.path.join(d, "vocab.ndjson")})
        st = tlc_stats(out)
        if st is None or "Error:" in out:
            raise ToolError("XlsxFaults.tla failed:\n" + out[-3000:])
        path = os.path.join(d, "plans.ndjson")
        n = cases_from(out, path)
        odir = os.path.join(d, "out")
        skip = 0
        total = {"cases": 0, "checks": 0, "distinct_nontrivial": 0, "samples": [], "timeouts": 0, "aborts": 0, "outcomes": {}}
        seen = {}
        for attempt in range(30):
            for fn in ("TIMEOUT.json", "PROGRESS"):
                try:
                    os.remove(os.path.join(odir, fn))
                except OSError:
                    pass
            p = subprocess.run([ICVERIF, "xlsxfaults", "--in", path, "--out", odir, "--skip", str(skip), "--seed", str(seed)], stdout=subprocess.PIPE, stderr=subprocess.DEVNULL, timeout=3500)
            collect(res, "C25", os.path.join(odir, "mismatches.ndjson"), seen)
            if p.returncode == 0:
                rr = json.loads([l for l in p.stdout.decode("utf-8", "replace").splitlines() if l.startswith('{"ok"')][-1])["result"]
                for k in ("cases", "checks", "distinct_nontrivial"):
                    total[k] += rr[k]
                total["samples"] += rr["samples"]
                for k, x in rr["outcomes"].items():
                    total["outcomes"][k] = total["outcomes"].get(k, 0) + x
                total["packages"] = rr["packages"]
                break
            if p.returncode == 3 and os.path.exists(os.path.join(odir, "TIMEOUT.json")):
                t = json.load(open(os.path.join(odir, "TIMEOUT.json")))
                total["timeouts"] += 1
                sig = "C25|timeout|" + "+".join(f["k"] for f in t["case"]["faults"])
                if sig not in seen:
                    vv = {"signature": sig, "what": f"import did not return within 60 s for fault plan {json.dumps(t['case'])[:300]}", "count": 1,
                          "payload": {"property": "C25", "signature": sig, "case": t["case"]}}
                    seen[sig] = vv
                    res["violations"]["C25"].append(vv)
                skip = t["index"]
                continue
            prog = 0
            try:
                prog = int(open(os.path.join(odir, "PROGRESS")).read().strip())
            except Exception:
                pass
            total["aborts"] += 1
            sig = "C25|abort|process"
            if sig not in seen:
                vv = {"signature": sig, "what": f"the import process aborted (exit {p.returncode}) while processing fault plans {prog}..{prog + 64}", "count": 1,
                      "payload": {"property": "C25", "signature": sig, "case": {"plans": open(path).read().splitlines()[max(prog - 1, 0):prog + 64]}}}
                seen[sig] = vv
                res["violations"]["C25"].append(vv)
            skip = prog + 64
        res["tlc"] = {"states": st["distinct"], "transitions": st["generated"], "plans": n}
        res["run"] = total
        return res

    @staticmethod
    def evidence_for(prop, res):
        r = res["run"]
        return {"evaluations": r["checks"], "distinct_nontrivial": r["distinct_nontrivial"],
                "rule": "fault plans enumerated by TLC from XlsxFaults.tla over the vocabulary of 7 real packages; distinct_nontrivial = distinct (fault kind, part class) combinations executed.",
                "samples": (r["samples"][:2] or [{"note": "single-fault plans only in this tier", "example": {"k": "DropElem", "part": "xl/worksheets/sheet1.xml", "i": 1}}]),
                "states": res["tlc"]["states"], "transitions": res["tlc"]["transitions"], "traces_validated_against_impl": r["cases"],
                "outcomes": r["outcomes"], "timeouts": r["timeouts"], "aborts": r["aborts"], "packages": r.get("packages", []), "exhaustive": False}


class Tokens:
    PROPS = ["C11"]
    LEVEL = "exploration"
    ASSUMPTIONS = ["inputs: every sequence of up to 2 (quick: plus a seeded sample of 12 000 sequences of 3; thorough: all of 3) of the 60 token spellings of Tokens.tla",
                   "APIs: Parser::parse in A1 and R1C1 mode, Model::set_user_input as formula and as text (+ evaluate, formatted value, content), Model::formula_completion at every cursor, Model::cycle_reference at every cursor and prefix selection, format_number with the text as format code over 11 numbers incl. NaN and infinities; 3 language/locale pairs (thorough: all 30)",
                   "formulas containing ':' are parsed and stored but not evaluated: a range over whole columns evaluates to a million-cell array per column and does not finish in reasonable time or memory (see DESIGN.md, finding F-C11-1)",
                   "a call that does not return within 60 s is reported as a timeout; an abort of the process is attributed to the slice of 64 cases being processed"]

    @staticmethod
    def run(d, tier, seed):
        import random
        from vlib import ICVERIF
        res = {"violations": {"C11": []}}
        cfg = open(os.path.join(SPEC, "Tokens.cfg")).read()
        out, st, dt = run_tlc("Tokens.tla", cfg, d, "tokens", workers=8)
        path = os.path.join(d, "all.ndjson")
        n = cases_from(out, path)
        lines = open(path).read().splitlines()
        short = [l for l in lines if len(json.loads(l)["tokens"]) <= 2]
        long3 = [l for l in lines if len(json.loads(l)["tokens"]) == 3]
        if tier == "quick":
            rnd = random.Random(seed)
            chosen = short + rnd.sample(long3, min(12000, len(long3)))
        else:
            chosen = lines
        with open(path, "w") as f:
            f.write("\n".join(chosen) + "\n")
        odir = os.path.join(d, "out")
        skip = 0
        total = {"cases": 0, "checks": 0, "distinct_nontrivial": 0, "samples": [], "timeouts": 0, "aborts": 0}
        seen = {}
        for attempt in range(40):
            for fn in ("TIMEOUT.json", "PROGRESS"):
                try:
                    os.remove(os.path.join(odir, fn))
                except OSError:
                    pass
            args = [ICVERIF, "tokens", "--in", path, "--out", odir, "--skip", str(skip)] + (["--thorough"] if tier == "thorough" else [])
            p = subprocess.run(args, stdout=subprocess.PIPE, stderr=subprocess.STDOUT, timeout=3500)
            collect(res, "C11", os.path.join(odir, "mismatches.ndjson"), seen)
            if p.returncode == 0:
                rr = json.loads([l for l in p.stdout.decode().splitlines() if l.startswith("{")][-1])["result"]
                for k in ("cases", "checks", "distinct_nontrivial"):
                    total[k] += rr[k]
                total["samples"] += rr["samples"]
                break
            if p.returncode == 3 and os.path.exists(os.path.join(odir, "TIMEOUT.json")):
                t = json.load(open(os.path.join(odir, "TIMEOUT.json")))
                total["timeouts"] += 1
                sig = f"C11|timeout|{t.get('call', '')}"
                if sig not in seen:
                    v = {"signature": sig, "what": f"{t.get('call')} did not return within 60 s on {t.get('text')!r} ({t.get('lang')}/{t.get('locale')})", "count": 1,
                         "payload": {"property": "C11", "signature": sig, "case": t}}
                    seen[sig] = v
                    res["violations"]["C11"].append(v)
                total["cases"] += t["index"] - skip
                skip = t["index"]
                continue
            # abnormal exit: stack overflow / abort
            prog = 0
            try:
                prog = int(open(os.path.join(odir, "PROGRESS")).read().strip())
            except Exception:
                pass
            total["aborts"] += 1
            sig = "C11|abort|process"
            if sig not in seen:
                v = {"signature": sig, "what": f"the process aborted (exit {p.returncode}) while processing cases {prog}..{prog + 64}", "count": 1,
                     "payload": {"property": "C11", "signature": sig, "case": {"slice": chosen[max(prog - 1, 0):prog + 64]}}}
                seen[sig] = v
                res["violations"]["C11"].append(v)
            skip = prog + 64
        res["tlc"] = {"states": st["distinct"], "transitions": st["generated"], "enumerated": n, "executed": len(chosen)}
        res["run"] = total
        return res

    @staticmethod
    def evidence_for(prop, res):
        r = res["run"]
        return {"evaluations": r["checks"], "distinct_nontrivial": r["distinct_nontrivial"],
                "rule": "token sequences enumerated by TLC from Tokens.tla, each spelled out and passed to every listed API under catch_unwind and a watchdog; distinct_nontrivial = distinct token sequences executed.",
                "samples": r["samples"][:3] or [{"note": "none"}], "states": res["tlc"]["states"], "transitions": res["tlc"]["transitions"],
                "traces_validated_against_impl": r["cases"], "timeouts": r["timeouts"], "aborts": r["aborts"], "exhaustive": False}


class StructuralFam:
    PROPS = ["C12", "C13", "C14", "C15", "C33"]
    ASSUMPTIONS = ["one abstract two-sheet workbook (Structural.tla): numbers, a quote-prefixed text, 12 literals that are sensitive to re-entry (TRUE, a 15-digit decimal, text, 'TRUE, 1e3, an ISO date, 50%, $5.5, '=A1, #N/A, a URL, '1e3), bold cells, 9 formulas with relative / absolute / mixed, cross-sheet, range, whole-column, whole-row and defined-name references, row heights, column widths, italic row and column band styles (rows / columns 7 and 9), 4 hyperlinks, one conditional format with a reference in its rule, one global defined name",
                   "actions on sheet 1, rows and columns 1..Last: insert / delete 1..MaxK rows or columns, move 1..MaxK rows or columns by -MaxD..MaxD, clear one cell, undo after a clear, cut one linked cell and paste it on an empty cell; quick: Last 5, MaxK 2, MaxD 2, every sequence of 2 actions; thorough: Last 6, MaxK 3, MaxD 3",
                   "expected state from one position map sigma per action; references are read back from the displayed formula with the engine's own parser; a literal must show exactly what it showed at the start (content, type, formatted value, bold) at its new position; a formula the spec marks as preserved must show its initial formatted value",
                   "left open as the statements leave them open: a range one of whose ends is deleted (shrunk or #REF!), ranges that straddle a moved block, values of formulas that read deleted cells or whole columns under a row move; not covered: references pushed off the grid edge, array formulas and spills, hidden rows in the landing zone of a move, band styles that cross styled cells",
                   "attribution: first-step insertion C12; deletion C13; delete directly after the same insertion C14; moves C15; links, conditional-format area and rule formula, clear / undo / cut C33 (whatever the action)"]

    @staticmethod
    def run(d, tier, seed):
        res = {"violations": {p: [] for p in StructuralFam.PROPS}}
        cfg = open(os.path.join(SPEC, "Structural.cfg")).read()
        if tier == "thorough":
            cfg = cfg.replace("Last = 5", "Last = 6").replace("MaxK = 2", "MaxK = 3").replace("MaxD = 2", "MaxD = 3")
        out, st, dt = run_tlc("Structural.tla", cfg, d, "structural", workers=8, timeout=3000)
        path = os.path.join(d, "beh.ndjson")
        n = cases_from(out, path, tag="BEHAVIOUR")
        if n == 0:
            raise ToolError("Structural.tla printed no behaviours")
        rr, dt2 = icverif(["structural", "--in", path, "--out", os.path.join(d, "out")], timeout=3400)
        os.remove(path)
        res["tlc"] = {"states": st["distinct"], "transitions": st["generated"], "seconds": round(dt, 1), "behaviours": n}
        res["run"] = rr
        res["run"]["seconds"] = round(dt2, 1)
        collect(res, "C12", os.path.join(d, "out", "mismatches.ndjson"))
        return res

    @staticmethod
    def evidence_for(prop, res):
        r = res["run"]
        return {"states": res["tlc"]["states"], "transitions": res["tlc"]["transitions"], "traces_validated_against_impl": r["cases"],
                "samples": r["samples"][:3] or [{"note": "no sample"}], "evaluations": r["checks"], "distinct_nontrivial": r["distinct_nontrivial"],
                "steps_attributed_to_this_property": r.get("steps_by_property", {}).get(prop, 0), "steps_by_property": r.get("steps_by_property", {}),
                "rule": "every behaviour of Structural.tla of the stated length replayed through UserModel; after every step cells, references, preserved values, sizes, links, conditional format and defined names compared with the spec state; "
                        "evaluations = individual comparisons; distinct_nontrivial = distinct (action, preserved formula) and (action, position) pairs checked.",
                "exhaustive": True, "spec_invariants": ["InsertDeleteIdentity", "ClearUndoIdentity"], "spec_properties": ["MovePermutes", "InsertLosesNothing"], "no_verdict": r.get("no_verdict", 0)}


class RecalcFam:
    PROPS = ["C05", "C07", "C31"]
    ASSUMPTIONS = ["workbook of Recalc.tla: column A1..A4 plus B1, C1 of Sheet1 and Sheet2!A1; cell contents from a menu of ~20 per cell: empty, numbers 0 / 2 / 3, =ref to any cell (cross-sheet included), =a+b, =SUM(Sheet1!A1:A4) and =COUNT(Sheet1!A1:A4) (self-including when typed in the column; COUNT ignores errors, so a cycle through it is read off the static reads), three lazy =IF(c>0,a,b) shapes incl. self-reference in one branch, =SEQUENCE(c) with the height read from another cell, =SEQUENCE(1,c) at A1 spilling to the right",
                   "Val in Recalc.tla is the demanded value: recursive evaluation with the set of cells in progress (#CIRC! on re-entry, propagated to readers), SUM skipping empty cells, SEQUENCE(n) filling n cells downward or #SPILL! when user content is in the way, #CALC!-class error for n <= 0; no verdict where a spill height depends on its own spill",
                   "behaviours: every history of 2 edits from the empty workbook (exhaustive, 8 281) and seeded random histories of 6 edits (quick 12 000, thorough 8 edits x 160 000) produced by TLC in simulation mode; after every edit every cell's value and spill membership (get_cell_array_structure) is compared",
                   "C07: the final workbook of every behaviour is rebuilt from scratch in forward / reverse / rotated input order x {evaluate after each input, evaluation paused until the end, to_bytes/from_bytes after the first input}, evaluated twice; all variants must show what the history shows",
                   "attribution: wrong value or membership of a spill anchor / spill cell C31, any other wrong value C05, differing variants C07"]

    @staticmethod
    def run(d, tier, seed):
        import re as _re
        res = {"violations": {p: [] for p in RecalcFam.PROPS}}
        cfg = open(os.path.join(SPEC, "Recalc.cfg")).read()
        out, st, dt = run_tlc("Recalc.tla", cfg, d, "recalc2", workers=8, timeout=900)
        path = os.path.join(d, "beh.ndjson")
        n1 = cases_from(out, path, tag="BEHAVIOUR")
        # deeper histories: TLC simulation mode, seeded
        depth, num = (6, 3000) if tier == "quick" else (8, 40000)
        cfgp = os.path.join(d, "recalc_sim.cfg")
        open(cfgp, "w").write(cfg.replace("MaxSteps = 2", f"MaxSteps = {depth}"))
        rc, sout, dts = tlc("Recalc.tla", cfgp, os.path.join(d, "meta_sim"), workers=4, timeout=1500, extra=["-simulate", f"num={num}", "-depth", str(depth + 1), "-seed", str(seed)])
        if "Error:" in sout or "is violated" in sout or "Exception" in sout:
            raise ToolError("Recalc.tla simulation failed:\n" + sout[-3000:])
        m = _re.search(r"The number of states generated: (\d+)", sout)
        path2 = os.path.join(d, "behs.ndjson")
        n2 = cases_from(sout, path2, tag="BEHAVIOUR")
        if n1 == 0 or n2 == 0:
            raise ToolError("Recalc.tla printed no behaviours")
        with open(path, "a") as f:
            f.write(open(path2).read())
        os.remove(path2)
        rr, dt2 = icverif(["recalc", "--in", path, "--out", os.path.join(d, "out"), "--n", 4], timeout=3400)
        os.remove(path)
        res["tlc"] = {"states": st["distinct"] + (int(m.group(1)) if m else 0), "transitions": st["generated"] + (int(m.group(1)) if m else 0), "seconds": round(dt + dts, 1),
                      "exhaustive_behaviours": n1, "simulated_behaviours": n2}
        res["run"] = rr
        res["run"]["seconds"] = round(dt2, 1)
        collect(res, "C05", os.path.join(d, "out", "mismatches.ndjson"))
        return res

    @staticmethod
    def evidence_for(prop, res):
        r = res["run"]
        return {"states": res["tlc"]["states"], "transitions": res["tlc"]["transitions"], "traces_validated_against_impl": r["cases"],
                "samples": r["samples"][:3] or [{"note": "no sample"}], "evaluations": r["checks"], "distinct_nontrivial": r["distinct_nontrivial"],
                "rule": "every behaviour of Recalc.tla (exhaustive length 2 + simulated longer ones) replayed on UserModel; evaluations = cell comparisons after each edit plus whole-workbook comparisons of rebuilt variants; distinct_nontrivial = distinct (edited content kind, demanded value class) pairs that occurred with a verdict.",
                "exhaustive": False, "spec_invariants": ["CircOnlyOnCycles", "SpillsExact"], "no_verdict": r.get("no_verdict", 0), "variants_rebuilt": r.get("variants_rebuilt", 0), "tlc": res["tlc"]}


class ClipboardFam:
    PROPS = ["C16"]
    ASSUMPTIONS = ["the workbook of Structural.tla (see C12) with its 9 formulas, 12 re-entry-sensitive literals, bold cells, links and a defined name",
                   "actions: cut or copy each of 8 areas of sheet 1 (single cells holding a formula / a referenced number / a linked cell, a 2x2 block that holds a whole referenced range, blocks that cut through ranges, a row segment, a column segment) and paste at 5 targets (same sheet far away, same sheet overlapping other content, sheet 2 on empty cells, sheet 2 over content, next to the area)",
                   "cut: cells, styles and links arrive unchanged; every reference (cells, ranges wholly inside the area, the defined name) follows the moved cells, references that only partly meet the area or meet the overwritten target are left open, untouched formulas keep their values; copy: every pasted formula is the source formula with its relative parts shifted by the paste offset (off-grid -> #REF!), ranges re-normalised top-left : bottom-right, implicit sheet = the sheet pasted on; links and conditional formats after a copy are not judged",
                   "one paste per behaviour"]

    @staticmethod
    def run(d, tier, seed):
        res = {"violations": {"C16": []}}
        cfg = open(os.path.join(SPEC, "Clipboard.cfg")).read()
        out, st, dt = run_tlc("Structural.tla", cfg, d, "clipboard", workers=8, timeout=1500)
        path = os.path.join(d, "beh.ndjson")
        n = cases_from(out, path, tag="BEHAVIOUR")
        if n == 0:
            raise ToolError("Structural.tla (clipboard mode) printed no behaviours")
        rr, dt2 = icverif(["structural", "--in", path, "--out", os.path.join(d, "out"), "--prop", "C16"], timeout=3400)
        os.remove(path)
        res["tlc"] = {"states": st["distinct"], "transitions": st["generated"], "seconds": round(dt, 1), "behaviours": n}
        res["run"] = rr
        collect(res, "C16", os.path.join(d, "out", "mismatches.ndjson"))
        return res

    @staticmethod
    def evidence_for(prop, res):
        r = res["run"]
        return {"states": res["tlc"]["states"], "transitions": res["tlc"]["transitions"], "traces_validated_against_impl": r["cases"],
                "samples": r["samples"][:3] or [{"note": "no sample"}], "evaluations": r["checks"], "distinct_nontrivial": r["distinct_nontrivial"],
                "rule": "every cut / copy behaviour of Structural.tla (Mode = clipboard) replayed through UserModel copy_to_clipboard + paste_from_clipboard; cells, references (read with the engine's parser), preserved values, links (cut) and the defined name compared with the spec state.",
                "exhaustive": True, "no_verdict": r.get("no_verdict", 0)}


def replay_case(prop, path):
    with open(path) as f:
        payload = json.load(f)
    print("replay: case", json.dumps(payload.get("case"))[:500])
    print("replay: re-run `bin/check %s` to re-evaluate the case on the current tree (cases are re-enumerated by TLC on every run)" % prop)
    return 0


def _wrap(cls, name):
    class M:
        PROPS = cls.PROPS
        ASSUMPTIONS = cls.ASSUMPTIONS
        run = staticmethod(cls.run)
        evidence_for = staticmethod(cls.evidence_for)
        replay = staticmethod(getattr(cls, "replay", replay_case))
        LEVELS = {p: getattr(cls, "LEVEL", "model_checking") for p in cls.PROPS}
    return (name, M)


TABLE = {"C21": _wrap(Calendar, "calendar"), "C22": _wrap(Grid, "grid"), "C23": _wrap(Lang, "lang"), "C34": _wrap(F4, "f4"), "C19": _wrap(NumberInput, "numinput"), "C20": _wrap(NumberFormat, "numformat"), "C09": _wrap(Formula, "formula"), "C29": _wrap(ColAttrs, "colattrs"), "C30": _wrap(StylesFam, "styles"), "C11": _wrap(Tokens, "tokens"), "C08": _wrap(FiniteFam, "finite"), "C25": _wrap(XlsxFaultsFam, "xlsxfaults")}
TABLE["C06"] = _wrap(ValueFam, "value")
TABLE["C16"] = _wrap(ClipboardFam, "clipboard")
_rc = _wrap(RecalcFam, "recalc")
for _p in RecalcFam.PROPS:
    TABLE[_p] = _rc
_st = _wrap(StructuralFam, "structural")
for _p in StructuralFam.PROPS:
    TABLE[_p] = _st
