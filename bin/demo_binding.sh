#!/bin/bash
# Demonstrates that the trace specifications are bound to what the implementation logs:
# records a short Frames trace from the real engine, validates it (accepted, no law violated),
# then corrupts ONE logged id of ONE event and validates again: TLC reports that event.
set -e
cd "$(dirname "$0")/.."
W=${VERIF_WORK:-$PWD/work}/demo_binding
rm -rf "$W"; mkdir -p "$W"; W=$(cd "$W" && pwd)
harness/target/release/icverif frames --out "$W/out" --seed 1 --runs 2 --steps 12 > /dev/null
run() {
  cp spec/TraceFrames.tla spec/TraceFrames.cfg spec/FrameLaws.tla "$W/"
  (cd "$W" && TRACE="$1" JAVA_TOOL_OPTIONS="-Xss1g -Dtlc2.tool.queue.IStateQueue=StateDeque" timeout 300 tlc -workers 1 -metadir "$W/meta" -cleanup -noGenerateSpecTE -config TraceFrames.cfg TraceFrames.tla 2>&1 | grep -E '^<<"(VIOL|ACCEPTED)"' | grep -v xlsx-changes-names || true)
}
echo "--- recorded trace:"
run "$W/out/frames.ndjson"
python3 - "$W/out/frames.ndjson" "$W/out/corrupt.ndjson" <<'P'
import json,sys
lines=open(sys.argv[1]).read().splitlines()
for i,l in enumerate(lines):
    e=json.loads(l)
    if e.get('ev')=='set_lang' and e.get('ok'):
        e['after']['vals']=e['after']['vals']+100000   # one logged id changed
        lines[i]=json.dumps(e); print('corrupted event at line',i+1,file=sys.stderr); break
open(sys.argv[2],'w').write('\n'.join(lines)+'\n')
P
echo "--- same trace with one id of one set_lang event changed:"
run "$W/out/corrupt.ndjson"
