"""C24: xlsx export -> import is a stuttering step of the workbook (Xlsx.tla, TraceXlsx.tla)."""
import json
import os
import re

from vlib import SPEC, ToolError, icverif, tlc, tlc_stats, tla_tuple_lines, validate_trace


def classify_diff(comp, d):
    """signature residue of a component difference: normalised path + kind of change"""
    parts = (d.split("\t") + ["", "", ""])[:4]
    path, kind, detail = parts[0], parts[1], parts[2]
    extra = parts[3] if len(parts) > 3 else ""
    np = re.sub(r"R\d+C\d+", "R*C*", re.sub(r"\[\d+\]", "[*]", re.sub(r"\.\d+", ".*", path)))
    m = re.match(r'^"(.*)" -> "(.*)"$', detail, re.S)
    if kind == "changed" and m:
        a, b = m.group(1), m.group(2)
        if b.replace("@", "") == a:
            kind = "at-sign-added"
        elif a.startswith("=") and b == a[1:]:
            kind = "leading-equals-dropped"
    if extra == "fmt_before=#ERROR!":
        kind = "unparsable-formula-reread"
    return np, kind, detail


class XlsxRT:
    PROPS = ["C24"]
    ASSUMPTIONS = ["workbooks: random histories of the operation catalogue of the history family (inputs of every kind, styles, borders, sizes, hidden rows/columns, sheets added / renamed / coloured / hidden / moved / duplicated / deleted, frozen panes, grid lines, global and local names incl. LAMBDA, named styles, conditional formats, links, arrays, clipboard, autofill, structural edits, undo) mixed with 28 re-entry-sensitive, Unicode, XML-special and control-character inputs",
                   "every 8 operations and at the end the model is exported with save_xlsx_to_writer, imported with load_from_xlsx_bytes(name, locale, timezone of the source) + Model::from_workbook(.., \"en\") and evaluated",
                   "compared components (the statement's list): sheets (name, order, state, colour), cells (content text, type, value to 15 digits, array structure), styles (style of every non-default cell and its shown text), rows, cols (sizes, hidden, styles), panes (frozen rows / columns, grid lines), names, links, cfs; not compared: sheet ids, theme, named styles, view state, workbook name / timezone (import parameters)",
                   "TLC decides equality per component on interned ids; the first differing path of a component names the finding (one signature per component, normalised path and kind of change)"]

    @staticmethod
    def run(d, tier, seed):
        res = {"violations": {"C24": []}}
        # design
        rc, out, dt = tlc("Xlsx.tla", os.path.join(SPEC, "Xlsx.cfg"), os.path.join(d, "meta_design"), workers=4, timeout=600)
        st = tlc_stats(out)
        if st is None or "Error:" in out or "is violated" in out:
            raise ToolError("Xlsx.tla failed:\n" + out[-2000:])
        res["design"] = {"states": st["distinct"], "transitions": st["generated"], "seconds": round(dt, 1)}
        runs, steps = (60, 40) if tier == "quick" else (700, 56)
        odir = os.path.join(d, "out")
        rr, dt2 = icverif(["xlsxrt", "--out", odir, "--seed", seed, "--runs", runs, "--steps", steps, "--every", 8], timeout=3400)
        tp = os.path.join(odir, "xlsx.ndjson")
        ok, vout, dtv = validate_trace("TraceXlsx.tla", os.path.join(SPEC, "TraceXlsx.cfg"), tp, os.path.join(d, "m"), timeout=3000)
        if not ok:
            raise ToolError("TraceXlsx did not consume the whole trace:\n" + vout[-3000:])
        vst = tlc_stats(vout)
        events = [json.loads(x) for x in open(tp)]
        progs = {}
        for line in open(os.path.join(odir, "prog.ndjson")):
            p = json.loads(line)
            progs[p["run"]] = p["program"]
        seen = {}
        printed = 0
        for v in tla_tuple_lines(vout, "VIOL"):
            _, l, prop, comp, run, step = v[:6]
            printed += 1
            ev = events[l - 1]
            if comp == "export-import-fails":
                sig = "C24|export-import-fails|" + re.sub(r"\d+", "N", ev.get("err", ""))[:80]
                what = f"export followed by import failed: {ev.get('err')}"
                detail = ev.get("err")
                cands = [(sig, what, detail)]
            else:
                cands = []
                for dd in ev["diff"].get(comp, []) or [""]:
                    np, kind, detail = classify_diff(comp, dd)
                    cands.append((f"C24|{comp}|{np}|{kind}", f"{comp} differ after export+import at {np} ({kind}): {detail[:200]}", detail))
            for sig, what, detail in cands:
                if sig in seen:
                    seen[sig]["count"] += 1
                    continue
                vv = {"signature": sig, "what": what, "count": 1,
                      "payload": {"property": "C24", "family": "xlsxrt", "signature": sig, "what": what, "direction": "I->S", "detail": detail,
                                  "program": progs.get(run, [])[:step + 1], "seed": seed, "run": run, "step": step}}
                seen[sig] = vv
                res["violations"]["C24"].append(vv)
        res["run"] = rr
        res["i2s"] = {"events": vst["distinct"] - 1, "violations_printed": printed, "seconds": round(dtv + dt2, 1)}
        res["sample"] = [e for e in events if e["ev"] == "xlsx"][:1]
        os.remove(tp)
        return res

    @staticmethod
    def evidence_for(prop, res):
        r = res["run"]
        return {"states": res["design"]["states"] + res["i2s"]["events"], "transitions": res["design"]["transitions"] + res["i2s"]["events"],
                "traces_validated_against_impl": r["runs"], "samples": res["sample"] or [{"note": "no sample"}],
                "evaluations": r["roundtrips"] * 9, "distinct_nontrivial": r["op_kinds"],
                "rule": "each recorded history validated by TLC against TraceXlsx.tla: an export+import event must leave each of the 9 components equal (interned ids); evaluations = round trips x components; distinct_nontrivial = distinct operation kinds that succeeded while building the workbooks.",
                "exhaustive": False, "design": res["design"], "impl_to_spec": res["i2s"], "roundtrips": r["roundtrips"], "operations": r["ops"], "roundtrip_failures": r["roundtrip_failures"]}


def replay(prop, path):
    payload = json.load(open(path))
    print("replay: program of", len(payload.get("program", [])), "operations; signature", payload.get("signature"))
    print("replay: re-run `bin/check C24` with VERIF_SEED=%s to re-evaluate it on the current tree" % payload.get("seed"))
    return 0


def _wrap(cls, name):
    class M:
        PROPS = cls.PROPS
        ASSUMPTIONS = cls.ASSUMPTIONS
        run = staticmethod(cls.run)
        evidence_for = staticmethod(cls.evidence_for)
        replay = staticmethod(replay)
        LEVELS = {p: "model_checking" for p in cls.PROPS}
    return (name, M)


TABLE = {"C24": _wrap(XlsxRT, "xlsxrt")}
