"""C24: xlsx export -> import is a stuttering step of the workbook (Xlsx.tla, TraceXlsx.tla)."""
import json
import os
import re

from vlib import SPEC, ToolError, icverif, tlc, tlc_stats, tla_tuple_lines, validate_trace


def classify_diff(comp, d):
    """signature residue of a component difference: normalised path + kind of change"""
    parts = (d.split("\t") + ["", "", ""])[:4]
    path, kind, detail = parts[0], parts[1], parts[2]
    extra = parts[3] if len(parts) > 3 else ""
    np = re.sub(r"R\d+C\d+", "R*C*", re.sub(r"\[\d+\]", "[*]", re.sub(r"\.\d+", ".*", path)))
    m = re.match(r'^"(.*)" -> "(.*)"$', detail, re.S)
    if kind == "changed" and m:
        a, b = m.group(1), m.group(2)
        if b.replace("@", "") == a:
            kind = "at-sign-added"
        elif a.startswith("=") and b == a[1:]:
            kind = "leading-equals-dropped"
    if extra == "fmt_before=#ERROR!":
        kind = "unparsable-formula-reread"
    return np, kind, detail


class XlsxRT:
    PROPS = ["C24"]
    ASSUMPTIONS = ["workbooks: random histories of the operation catalogue of the history family (inputs of every kind, styles, borders, sizes, hidden rows/columns, sheets added / renamed / coloured / hidden / moved / duplicated / deleted, frozen panes, grid lines, global and local names incl. LAMBDA, named styles, conditional formats, links, arrays, clipboard, autofill, structural edits, undo) mixed with 28 re-entry-sensitive, Unicode, XML-special and control-character inputs",
                   "every 8 operations and at the end the model is exported with save_xlsx_to_writer, imported with load_from_xlsx_bytes(name, locale, timezone of the source) + Model::from_workbook(.., \"en\") and evaluated",
                   "compared components (the statement's list): sheets (name, order, state, colour), cells (content text, type, value to 15 digits, array structure), styles (style of every non-default cell and its shown text), rows, cols (sizes, hidden, styles), panes (frozen rows / columns, grid lines), names, links, cfs; not compared: sheet ids, theme, named styles, view state, workbook name / timezone (import parameters)",
                   "TLC decides equality per component on interned ids; the first differing path of a component names the finding (one signature per component, normalised path and kind of change)"]

    @staticmethod
    def run(d, tier, seed):
        res = {"violations": {"C24": []}}
        # design
        rc, out, dt = tlc("Xlsx.tla", os.path.join(SPEC, "Xlsx.cfg"), os.path.join(d, "meta_design"), workers=4, timeout=600)
        st = tlc_stats(out)
        if st is None or "Error:" in out or "is violated" in out:
            raise ToolError("Xlsx.tla failed:\n" + out[-2000:])
        res["design"] = {"states": st["distinct"], "transitions": st["generated"], "seconds": round(dt, 1)}
        runs, steps = (60, 40) if tier == "quick" else (700, 56)
        odir = os.path.join(d, "out")
        rr, dt2 = icverif(["xlsxrt", "--out", odir, "--seed", seed, "--runs", runs, "--steps", steps, "--every", 8], timeout=3400)
        tp = os.path.join(odir, "xlsx.ndjson")
        ok, vout, dtv = validate_trace("TraceXlsx.tla", os.path.join(SPEC, "TraceXlsx.cfg"), tp, os.path.join(d, "m"), timeout=3000)
        if not ok:
            raise ToolError("TraceXlsx did not consume the whole trace:\n" + vout[-3000:])
        vst = tlc_stats(vout)
        events = [json.loads(x) for x in open(tp)]
        progs = {}
        for line in open(os.path.join(odir, "prog.ndjson")):
            p = json.loads(line)
            progs[p["run"]] = p["program"]
        seen = {}
        printed = 0
        for v in tla_tuple_lines(vout, "VIOL"):
            _, l, prop, comp, run, step = v[:6]
            printed += 1
            ev = events[l - 1]
            if comp == "export-import-fails":
                sig = "C24|export-import-fails|" + re.sub(r"\d+", "N", ev.get("err", ""))[:80]
                what = f"export followed by import failed: {ev.get('err')}"
                detail = ev.get("err")
                cands = [(sig, what, detail)]
            else:
                cands = []
                # a cell holding an unparsable formula is read again by the importer (recorded finding); the values
                # of the formulas that read it change with it: consequences, counted under that finding
                reread = any(classify_diff(cc, d2)[1] == "unparsable-formula-reread" for cc in ("cells", "styles") for d2 in ev["diff"].get(cc, []))
                for dd in ev["diff"].get(comp, []) or [""]:
                    np, kind, detail = classify_diff(comp, dd)
                    if reread and kind == "changed" and comp in ("cells", "styles") and (np.endswith(".fmt") or ".v." in np or np.endswith(".t")):
                        kind = "unparsable-formula-reread"
                    cands.append((f"C24|{comp}|{np}|{kind}", f"{comp} differ after export+import at {np} ({kind}): {detail[:200]}", detail))
            for sig, what, detail in cands:
                if sig in seen:
                    seen[sig]["count"] += 1
                    continue
                vv = {"signature": sig, "what": what, "count": 1,
                      "payload": {"property": "C24", "family": "xlsxrt", "signature": sig, "what": what, "direction": "I->S", "detail": detail,
                                  "program": progs.get(run, [])[:step + 1], "seed": seed, "run": run, "step": step}}
                seen[sig] = vv
                res["violations"]["C24"].append(vv)
        res["run"] = rr
        res["i2s"] = {"events": vst["distinct"] - 1, "violations_printed": printed, "seconds": round(dtv + dt2, 1)}
        res["sample"] = [e for e in events if e["ev"] == "xlsx"][:1]
        os.remove(tp)
        return res

    @staticmethod
    def evidence_for(prop, res):
        r = res["run"]
        return {"states": res["design"]["states"] + res["i2s"]["events"], "transitions": res["design"]["transitions"] + res["i2s"]["events"],
                "traces_validated_against_impl": r["runs"], "samples": res["sample"] or [{"note": "no sample"}],
                "evaluations": r["roundtrips"] * 9, "distinct_nontrivial": r["op_kinds"],
                "rule": "each recorded history validated by TLC against TraceXlsx.tla: an export+import event must leave each of the 9 components equal (interned ids); evaluations = round trips x components; distinct_nontrivial = distinct operation kinds that succeeded while building the workbooks.",
                "exhaustive": False, "design": res["design"], "impl_to_spec": res["i2s"], "roundtrips": r["roundtrips"], "operations": r["ops"], "roundtrip_failures": r["roundtrip_failures"]}


class FramesFam:
    PROPS = ["C10", "C17", "C32"]
    ASSUMPTIONS = ["one workbook (3 sheets, 54 formulas, defined names used in every operator position: cross-sheet references, quoted sheet names, references and a range on sheets that do not exist, global / sheet-local / LAMBDA / range names and an unknown name, whole-column range, TEXT and & (locale-dependent), errors, a conditional format whose rule uses a name) driven through seeded random sequences of 25 operations: set_language (5), set_locale (6), rename / move / duplicate / delete sheet, rename a defined name, type the shown content of a formula back (in whatever language is active), to_bytes/from_bytes, xlsx export+import; after every language / locale switch the workbook is also re-read from its bytes (everything stored is parsed again)",
                   "before and after every operation the components named in FrameLaws.tla are projected: all values (in English spelling), values of formulas without SHEET/CELL/INDIRECT/FORMULATEXT/ADDRESS, non-text values of formulas without TEXT/VALUE/FIXED/DOLLAR/NUMBERVALUE/DATEVALUE/TIMEVALUE/&, stored formula texts (worksheet.shared_formulas), defined names as stored, conditional formats as stored, sheet names spelled by each formula and defined names used by each formula (read from the parsed trees)",
                   "TLC evaluates the law of each event (TraceFrames.tla); a sheet rename to a name that dangling references already spell may change values (shown by the design model Frames.tla) and carries no verdict on values; a global name is not renamed on sheets that shadow it",
                   "attribution: language / locale / re-entry laws C10 (names also C32); sheet rename / move / duplicate C17 (names C32); delete sheet, rename name, reload, xlsx: C32"]

    @staticmethod
    def run(d, tier, seed):
        res = {"violations": {p: [] for p in FramesFam.PROPS}}
        rc, out, dt = tlc("Frames.tla", os.path.join(SPEC, "Frames.cfg"), os.path.join(d, "meta_design"), workers=4, timeout=600)
        st = tlc_stats(out)
        if st is None or "Error:" in out or "is violated" in out:
            raise ToolError("Frames.tla failed:\n" + out[-2000:])
        res["design"] = {"states": st["distinct"], "transitions": st["generated"], "seconds": round(dt, 1)}
        runs = 80 if tier == "quick" else 1200
        odir = os.path.join(d, "out")
        rr, dt2 = icverif(["frames", "--out", odir, "--seed", seed, "--runs", runs, "--steps", 25], timeout=3400)
        tp = os.path.join(odir, "frames.ndjson")
        ok, vout, dtv = validate_trace("TraceFrames.tla", os.path.join(SPEC, "TraceFrames.cfg"), tp, os.path.join(d, "m"), timeout=3400)
        if not ok:
            raise ToolError("TraceFrames did not consume the whole trace:\n" + vout[-3000:])
        vst = tlc_stats(vout)
        details = {}
        for line in open(os.path.join(odir, "detail.ndjson")):
            x = json.loads(line)
            details[x["l"]] = x
        events = {}
        with open(tp) as f:
            for n, line in enumerate(f, 1):
                if n in details and '"ev":"reset"' not in line:
                    pass
        seen = {}
        printed = 0
        viol_lines = {}
        for v in tla_tuple_lines(vout, "VIOL"):
            _, l, prop, law = v[:4]
            printed += 1
            x = details.get(l, {})
            last = (x.get("program") or [{}])[-1]
            # residue: the first difference of the component the law speaks about, normalised
            comp = {"language-changes-values": "vals", "locale-changes-values": "vals_nl", "re-entry-changes-values": "vals", "switch-then-reread-changes-values": "vals", "rename-changes-values": "vals_ns", "move-changes-values": "vals_ns",
                    "rename-name-changes-values": "vals"}.get(law, "names" if "names" in law else ("stored" if "stored" in law else ("cfs" if "conditional" in law else "")))
            dd = (x.get("diff", {}).get(comp) or x.get("diff", {}).get("copy_vs_source") or [""])[0]
            parts = (dd.split("\t") + ["", ""])[:3]
            residue = re.sub(r"R\d+C\d+", "R*C*", re.sub(r"\[\d+\]", "[*]", re.sub(r"^\.\d+", ".*", parts[0]))) + "|" + re.sub(r"\d", "N", parts[2])[:50]
            sig = f"{prop}|{law}|{last.get('act', '')}|{residue}"
            if sig in seen:
                seen[sig]["count"] += 1
                continue
            what = f"{law} after {last.get('act')} {json.dumps(last.get('args'))} (language {x.get('lang')}, locale {x.get('locale')}): {dd[:200]}"
            vv = {"signature": sig, "what": what, "count": 1,
                  "payload": {"property": prop, "family": "frames", "signature": sig, "what": what, "direction": "I->S", "program": x.get("program"), "diff": x.get("diff"), "seed": seed, "run": x.get("run")}}
            seen[sig] = vv
            res["violations"][prop].append(vv)
        res["run"] = rr
        res["i2s"] = {"events": vst["distinct"] - 1, "violations_printed": printed, "seconds": round(dtv + dt2, 1)}
        os.remove(tp)
        return res

    @staticmethod
    def evidence_for(prop, res):
        r = res["run"]
        mine = {"C10": ("set_lang", "set_locale", "retype", "reparse"), "C17": ("rename_sheet", "move_sheet", "dup_sheet"), "C32": ("set_lang", "set_locale", "rename_sheet", "move_sheet", "del_sheet", "rename_name", "reload", "xlsx")}[prop]
        n = sum(c for k, c in r["kinds"].items() if k.endswith(":ok") and k.split(":")[0] in mine)
        return {"states": res["design"]["states"] + res["i2s"]["events"], "transitions": res["design"]["transitions"] + res["i2s"]["events"],
                "traces_validated_against_impl": r["runs"], "samples": [{"operation_counts": r["kinds"]}],
                "evaluations": n, "distinct_nontrivial": len([k for k in r["kinds"] if k.endswith(":ok") and k.split(":")[0] in mine]),
                "rule": "every recorded operation event validated by TLC against the law of its action in TraceFrames.tla / FrameLaws.tla; evaluations = successful events of the operation kinds this property speaks about; distinct_nontrivial = those kinds.",
                "exhaustive": False, "design": res["design"], "impl_to_spec": res["i2s"], "operations": r["ops"]}


class ReentryFam:
    PROPS = ["C18"]
    ASSUMPTIONS = ["inputs: every string up to length 3 (thorough 4) over the 17-character alphabet {1 2 0 , . - + e % $ EUR / space : ' = T} and a vocabulary of 178 entries (booleans and errors in the five languages, dates, times, percentages, currencies, grouped, scientific, very small and very large numbers, look-alike strings with and without the quote prefix, 58 formulas incl. malformed ones and every operator nesting that needs parentheses, Unicode / control-character text, a URL)",
                   "each input is typed with Model::set_user_input into a fresh default-styled cell of a workbook in each language / locale pair (quick: 8 pairs; thorough: 12 pairs - every language, every locale, crossings), evaluated, observed; then get_localized_cell_content is typed back into the same cell, evaluated and observed again",
                   "observed components: content text, value type, style (every attribute), value with numbers to 15 significant digits; TLC compares them as interned ids",
                   "an input the engine refuses carries no verdict; shown content the engine refuses is a violation"]

    @staticmethod
    def run(d, tier, seed):
        res = {"violations": {"C18": []}}
        vs, _ = icverif(["reentryvocab"])
        cfg = open(os.path.join(SPEC, "Reentry.cfg")).read().replace("VocabSize = 1", "VocabSize = %d" % vs["vocab"])
        if tier == "thorough":
            cfg = cfg.replace("MaxLen = 3", "MaxLen = 4")
        cfgp = os.path.join(d, "reentry.cfg")
        open(cfgp, "w").write(cfg)
        rc, out, dt = tlc("Reentry.tla", cfgp, os.path.join(d, "meta_cases"), workers=8, timeout=1700)
        st = tlc_stats(out)
        if st is None or "Error:" in out or "is violated" in out:
            raise ToolError("Reentry.tla failed:\n" + out[-2000:])
        from fam_cases import cases_from
        path = os.path.join(d, "cases.ndjson")
        n = cases_from(out, path)
        langs, locs = ["en", "es", "fr", "de", "it"], ["en", "en-GB", "es", "fr", "de", "it"]
        if tier == "thorough":
            # every language with its own locale, English with every locale, and three crossings
            pairs = ["en/en", "es/es", "fr/fr", "de/de", "it/it", "en/en-GB", "en/es", "en/fr", "en/de", "en/it", "de/en", "it/fr"]
        else:
            pairs = ["en/en", "de/de", "es/es", "fr/fr", "it/it", "en/de", "fr/en-GB", "es/it"]
        odir = os.path.join(d, "out")
        rr, dt2 = icverif(["reentry", "--in", path, "--out", odir, "--pairs", ",".join(pairs)], timeout=3400)
        tp = os.path.join(odir, "reentry.ndjson")
        ok, vout, dtv = validate_trace("TraceReentry.tla", os.path.join(SPEC, "TraceReentry.cfg"), tp, os.path.join(d, "m"), timeout=3400)
        if not ok:
            raise ToolError("TraceReentry did not consume the whole trace:\n" + vout[-3000:])
        vst = tlc_stats(vout)
        details = {}
        for line in open(os.path.join(odir, "detail.ndjson")):
            x = json.loads(line)
            details[x["l"]] = x
        seen = {}
        printed = 0
        for v in tla_tuple_lines(vout, "VIOL"):
            _, l, prop, comp = v[:4]
            printed += 1
            x = details.get(l, {})
            if comp == "content-refused":
                cands = [("C18|content-refused|" + re.sub(r"\d", "N", x.get("err", ""))[:60], f"the shown content {x.get('shown')!r} of input {x.get('case')} was refused: {x.get('err')}")]
            else:
                cands = []
                first_type = x.get("first", {}).get("type", "?")
                for dd in x.get("diff", {}).get(comp, []) or [""]:
                    parts = (dd.split("\t") + ["", ""])[:3]
                    shown = x.get("shown") or ""
                    if shown.startswith("=") and "#REF!" in shown:
                        # the typed text was taken as a formula with an impossible reference (row 0, column beyond the grid)
                        sig = f"C18|{comp}|{parts[0]}|{first_type}|ref-error-in-formula"
                    else:
                        sig = f"C18|{comp}|{parts[0]}|{first_type}|" + re.sub(r"\d", "N", parts[2])[:60]
                    cands.append((sig, f"{comp} of the cell typed as {x.get('case')} (shown {x.get('shown')!r}) changed on re-entry: {parts[0]} {parts[2][:160]}"))
            for sig, what in cands:
                if sig in seen:
                    seen[sig]["count"] += 1
                    continue
                vv = {"signature": sig, "what": what, "count": 1,
                      "payload": {"property": "C18", "family": "reentry", "signature": sig, "what": what, "direction": "I->S", "case": x.get("case"), "shown": x.get("shown"), "diff": x.get("diff"), "first": x.get("first")}}
                seen[sig] = vv
                res["violations"]["C18"].append(vv)
        res["run"] = rr
        res["tlc"] = {"states": st["distinct"], "transitions": st["generated"], "inputs_printed": n, "seconds": round(dt, 1)}
        res["i2s"] = {"events": vst["distinct"] - 1, "violations_printed": printed, "seconds": round(dtv + dt2, 1), "pairs": pairs}
        os.remove(tp)
        os.remove(path)
        return res

    @staticmethod
    def evidence_for(prop, res):
        r = res["run"]
        return {"states": res["tlc"]["states"] + res["i2s"]["events"], "transitions": res["tlc"]["transitions"] + res["i2s"]["events"],
                "traces_validated_against_impl": len(res["i2s"]["pairs"]), "samples": [{"pairs": res["i2s"]["pairs"]}],
                "evaluations": r["cases"] * 4, "distinct_nontrivial": r["cell_kinds"],
                "rule": "every input of Reentry.tla x every language/locale pair: type, observe, type the shown content back, observe; TLC (TraceReentry.tla) requires the 4 components equal; evaluations = cases x components; distinct_nontrivial = distinct (value type, number format) kinds of cells the inputs produced.",
                "exhaustive": True, "inputs": r["inputs"], "cases": r["cases"], "refused_inputs": r["refused_inputs"], "panics": r["panics"], "tlc": res["tlc"], "impl_to_spec": res["i2s"]}


def replay(prop, path):
    payload = json.load(open(path))
    print("replay:", json.dumps(payload.get("case") or {"program_length": len(payload.get("program", []))}), "signature", payload.get("signature"))
    print("replay: re-run `bin/check %s` (VERIF_SEED=%s) to re-evaluate it on the current tree" % (prop, payload.get("seed", 1)))
    return 0


def _wrap(cls, name):
    class M:
        PROPS = cls.PROPS
        ASSUMPTIONS = cls.ASSUMPTIONS
        run = staticmethod(cls.run)
        evidence_for = staticmethod(cls.evidence_for)
        replay = staticmethod(replay)
        LEVELS = {p: "model_checking" for p in cls.PROPS}
    return (name, M)


TABLE = {"C24": _wrap(XlsxRT, "xlsxrt"), "C18": _wrap(ReentryFam, "reentry")}
_fr = _wrap(FramesFam, "frames")
for _p in FramesFam.PROPS:
    TABLE[_p] = _fr
