-------------------------------- MODULE FrameLaws --------------------------------
(***************************************************************************)
(* C10 / C17 / C32 - what switching language or locale, renaming, moving,   *)
(* duplicating or deleting a sheet and renaming a defined name may change.  *)
(*                                                                         *)
(* The workbook is seen through components: vals (every cell value),        *)
(* vals_ns (values of formulas that do not read sheet names or formula      *)
(* text), vals_nl (non-text values of formulas without locale-dependent     *)
(* functions), stored (stored formula texts), names (defined names as       *)
(* stored), cfs (conditional formats as stored), refs (the sheet names each *)
(* formula spells out), uses (the defined names each formula uses).         *)
(*   SetLanguage   : vals, stored, names, cfs unchanged                      *)
(*   SetLocale     : vals_nl, stored, names, cfs unchanged                   *)
(*   Reparse       : reading everything stored again right after a switch    *)
(*                   changes nothing                                         *)
(*   Retype        : stored, vals unchanged (shown content typed back)       *)
(*   RenameSheet   : vals_ns unchanged; refs and names follow the rename     *)
(*   MoveSheet     : vals_ns, refs, names unchanged                          *)
(*   DuplicateSheet: vals_ns of every old sheet unchanged; the copy computes *)
(*                   what its source computes                                *)
(*   DeleteSheet   : names neither scoped to nor reading the sheet survive   *)
(*   RenameName    : vals unchanged; uses follow the rename                  *)
(*   Reload, Xlsx  : names unchanged                                         *)
(* The operators below are these laws on the logged data; the small model   *)
(* at the end checks them against each other.                               *)
(***************************************************************************)
EXTENDS Integers, Sequences, FiniteSets, TLC

SeqRange(s) == {s[j] : j \in 1..Len(s)}
Ren(s, old, new) == [j \in 1..Len(s) |-> IF s[j] = old THEN new ELSE s[j]]
(* refs / uses entries: <<sheet id, cell, <<names>>>> *)
RenameInRefs(refs, old, new) == [i \in 1..Len(refs) |-> <<refs[i][1], refs[i][2], Ren(refs[i][3], old, new)>>]
(* a global name is renamed in every formula except on the sheets that have a local name of the same spelling  *)
(* (shadow); a local name only on its own sheet                                                             *)
RenameInUses(uses, old, new, scope, shadow) ==
  [i \in 1..Len(uses) |-> IF (scope = -1 /\ uses[i][1] \notin SeqRange(shadow)) \/ uses[i][1] = scope
                             THEN <<uses[i][1], uses[i][2], Ren(uses[i][3], old, new)>> ELSE uses[i]]
(* a rename to a name that formulas already spell (a reference to a sheet that did not exist) makes those     *)
(* references resolve: their values change, and that is what the statement's "unchanged references" implies *)
RenameCaptures(refs, new) == \E i \in 1..Len(refs) : new \in SeqRange(refs[i][3])
(* names entries: <<name, scope sheet id or -1, stored formula, <<sheet names in the formula>>>> *)
NamesCore(names) == [i \in 1..Len(names) |-> <<names[i][1], names[i][2], names[i][4]>>]
RenameInNames(names, old, new) == [i \in 1..Len(names) |-> <<names[i][1], names[i][2], Ren(names[i][4], old, new)>>]
NamesSurviveDelete(bn, an, sid, name) ==
  \A i \in 1..Len(bn) : (bn[i][2] # sid /\ name \notin SeqRange(bn[i][4])) => \E j \in 1..Len(an) : an[j] = bn[i]
(* the copy computes what its source computes (both read in the state after the duplication: the source itself *)
(* is covered by "old sheets unchanged")                                                                      *)
DupValuesOK(bs, as, src, new) ==
  LET s == ToString(src)  n == ToString(new) IN
  s \in DOMAIN as /\ n \in DOMAIN as /\ as[n].vals_dup = as[s].vals_dup
=============================================================================
