SPECIFICATION TSpec
CONSTANTS
  MaxLen = 3
INVARIANTS TypeOK Emit
CHECK_DEADLOCK FALSE
