-------------------------------- MODULE Xlsx --------------------------------
(***************************************************************************)
(* C24 - xlsx export then import preserves the workbook.                    *)
(*                                                                         *)
(* The workbook, as far as the statement speaks about it, is a record of    *)
(* components: sheets (names, order, visibility, colours), cells (content,  *)
(* value type, computed value, array structure), styles (style and shown    *)
(* text per cell), rows and cols (sizes, hidden flags, styles), panes       *)
(* (frozen rows / columns, grid lines), names, links, cfs.  Edit changes    *)
(* it arbitrarily; Export writes a file holding the workbook; Import reads  *)
(* it back.  The contract: Export followed by Import is a stuttering step.  *)
(***************************************************************************)
EXTENDS Integers, TLC

CONSTANTS Vals,          \* abstract component values
          Components     \* {"sheets", "cells", "styles", "rows", "cols", "panes", "names", "links", "cfs"} (a subset when model checking)
Books == [Components -> Vals]

VARIABLES book, file
xvars == <<book, file>>

NoFile == [c \in Components |-> 0]      \* 0 is not a component value
XInit == book \in Books /\ file = NoFile
Edit == book' \in Books /\ UNCHANGED file
Export == file' = book /\ UNCHANGED book
Import == file # NoFile /\ book' = file /\ UNCHANGED file
XNext == Edit \/ Export \/ Import
XSpec == XInit /\ [][XNext]_xvars

(* importing the file just exported changes nothing *)
RoundTrip == [][(Import /\ file = book) => book' = book]_xvars
(* a file never holds anything but a workbook that existed *)
FileIsABook == file = NoFile \/ file \in Books
=============================================================================
