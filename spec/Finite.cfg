SPECIFICATION FSpec
CONSTANTS
  MaxArity = 2
  ArgClasses = {"huge", "tiny", "neghuge", "zero", "one", "negone", "half", "empty", "true", "text", "hugetext", "inftext", "div0"}
  Shapes = {"scalar", "viaref", "arraylit", "range", "cse", "spill"}
INVARIANTS Finite Emit
CHECK_DEADLOCK FALSE
