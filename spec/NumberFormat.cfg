SPECIFICATION FSpec
CONSTANTS
  MantDigits = {0, 1, 4, 5, 9}
  MaxMant = 2
  NegK = 4
  MaxK = 2
INVARIANTS Idempotent WellShaped Emit
CHECK_DEADLOCK FALSE
