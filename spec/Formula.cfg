SPECIFICATION TSpec
CONSTANTS
  Depth = 2
INVARIANTS MinRoundTrip FullRoundTrip Emit
CHECK_DEADLOCK FALSE
