SPECIFICATION BehSpec3
CONSTANTS
  LastRow = 1048576
  LastCol = 16384
  MaxSheets = 3
  Cells <- MCCellsBeh
  OffGrid <- MCOffGrid
  MaxSteps = 4
  MaxHist = 9
INVARIANTS SelOK Emit
CHECK_DEADLOCK FALSE
