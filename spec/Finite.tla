------------------------------- MODULE Finite -------------------------------
(***************************************************************************)
(* C08 - no cell ever stores a non-finite number.                           *)
(*                                                                         *)
(* The state is the class of every number stored in the workbook:           *)
(* finite | nan | +inf | -inf.  StoreResult is the only action that writes  *)
(* numbers (the scalar result of a formula, every element of an array or    *)
(* dynamic-array result, a number typed by the user); the required design   *)
(* is that a non-finite result is stored as an error value, so the          *)
(* invariant Finite holds in every state.  There is no arithmetic to model: *)
(* the specification contributes the case space (argument-class vectors x   *)
(* result shapes, crossed by the harness with every built-in function and   *)
(* operator) and the monitor.                                               *)
(***************************************************************************)
EXTENDS Integers, Sequences, FiniteSets, TLC, Json

CONSTANTS MaxArity, ArgClasses, Shapes

NumClass == {"finite", "nan", "+inf", "-inf"}

VARIABLES case,      \* [args, shape]: what is evaluated
          stored     \* set of classes of the numbers the evaluation stored ({"pending"} before)
RECURSIVE Vecs(_)
Vecs(n) == IF n = 0 THEN {<<>>} ELSE LET P == Vecs(n - 1) IN P \cup {Append(p, x) : p \in {q \in P : Len(q) = n - 1}, x \in ArgClasses}

FInit == case \in [args : Vecs(MaxArity), shape : Shapes] /\ stored = {"pending"}
(* the design: whatever the computation produced, what is stored is finite (or an error value) *)
StoreResult == stored = {"pending"} /\ stored' \in SUBSET {"finite"} /\ UNCHANGED case
FSpec == FInit /\ [][StoreResult]_<<case, stored>>

Finite == stored \subseteq {"pending", "finite"}
Emit == stored = {"pending"} => PrintT(<<"CASE", ToJson(case)>>)
=============================================================================
