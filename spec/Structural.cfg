SPECIFICATION SSpec
CONSTANTS
  Last = 5
  MaxSteps = 1
INVARIANTS InsertDeleteIdentity ClearUndoIdentity Emit
PROPERTIES MovePermutes InsertLosesNothing
CHECK_DEADLOCK FALSE
