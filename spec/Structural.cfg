SPECIFICATION SSpec
CONSTANTS
  Last = 5
  MaxK = 2
  MaxD = 2
  MaxSteps = 2
INVARIANTS InsertDeleteIdentity ClearUndoIdentity Emit
PROPERTIES MovePermutes InsertLosesNothing
CHECK_DEADLOCK FALSE
