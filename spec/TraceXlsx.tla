------------------------------ MODULE TraceXlsx ------------------------------
(***************************************************************************)
(* C24 - trace validation.  Every recorded history interleaves edits with   *)
(* Export;Import pairs performed on the real engine; the components of the  *)
(* workbook before the export and after the import are logged as interned   *)
(* ids.  An "xlsx" event is matched by Export \cdot Import of Xlsx.tla:     *)
(* every component must be what it was.  A pair that fails (error or panic) *)
(* is not a behaviour of the specification.                                 *)
(***************************************************************************)
EXTENDS Integers, Sequences, FiniteSets, TLC, Json, IOUtils

Rec == ndJsonDeserialize(IOEnv.TRACE)
Components == <<"sheets", "cells", "styles", "rows", "cols", "panes", "names", "links", "cfs">>

VARIABLES l, book      \* book: the logged workbook (record of ids) or "unknown" after an edit
tvars == <<l, book>>

IsEvent(e) == l <= Len(Rec) /\ Rec[l].ev = e /\ l' = l + 1

Reset == IsEvent("reset") /\ book' = [unknown |-> TRUE]
Edit == IsEvent("edit") /\ book' = [unknown |-> TRUE]
Changed(ev) == {i \in 1..Len(Components) : ev.after[Components[i]] # ev.before[Components[i]]}
RoundTrip ==
  /\ IsEvent("xlsx")
  /\ LET ev == Rec[l] IN
     /\ book' = ev.before
     /\ \A i \in Changed(ev) : PrintT(<<"VIOL", l, "C24", Components[i], ev.run, ev.step>>)
Fails == IsEvent("rtfail") /\ UNCHANGED book /\ PrintT(<<"VIOL", l, "C24", "export-import-fails", Rec[l].run, Rec[l].step>>)

TraceNext == Reset \/ Edit \/ RoundTrip \/ Fails
TraceInit == l = 1 /\ book = [unknown |-> TRUE]
TraceSpec == TraceInit /\ [][TraceNext]_tvars

TraceAccepted ==
  LET d == TLCGet("stats").diameter IN
  IF d - 1 = Len(Rec) THEN PrintT(<<"ACCEPTED", Len(Rec)>>)
  ELSE Print(<<"REJECTED at event", d>>, FALSE)
=============================================================================
