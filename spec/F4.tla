-------------------------------- MODULE F4 --------------------------------
(***************************************************************************)
(* C34 - F4 reference cycling has period four and touches only $ markers.  *)
(*                                                                         *)
(* A formula is "=" followed by separators and reference tokens.  A token  *)
(* is an optional sheet prefix and one or two endpoints; an endpoint is a   *)
(* column (letters), a row (digits) or both, each with an absolute flag.    *)
(* Cycle advances (rel,rel)->(abs,abs)->(rel,abs)->(abs,rel)->(rel,rel) on  *)
(* every endpoint of every token the selection touches, upper-cases those   *)
(* tokens and leaves every other character alone.                           *)
(***************************************************************************)
EXTENDS Integers, Sequences, FiniteSets, TLC, Json

CONSTANTS MaxRefs,
          AllSelections   \* TRUE: every selection a <= b; FALSE: collapsed cursors and selections reaching the end only

Chars(s) == s      \* formulas are sequences of one-character strings

(* ---- endpoints and tokens ------------------------------------------------ *)
EP(col, row, ac, ar) == [col |-> col, row |-> row, ac |-> ac, ar |-> ar]
Upper(ch) == CASE ch = "a" -> "A" [] ch = "b" -> "B" [] ch = "c" -> "C" [] ch = "d" -> "D" [] OTHER -> ch
UpperSeq(s) == [i \in 1..Len(s) |-> Upper(s[i])]
EPText(e) == (IF e.ac THEN <<"$">> ELSE <<>>) \o e.col \o (IF e.ar THEN <<"$">> ELSE <<>>) \o e.row
EPUpper(e) == [e EXCEPT !.col = UpperSeq(e.col)]

NextEP(e) ==
  IF e.col = <<>> THEN [e EXCEPT !.ac = FALSE, !.ar = ~(e.ac \/ e.ar)]     \* row-only endpoint
  ELSE IF e.row = <<>> THEN [e EXCEPT !.ac = ~e.ac, !.ar = FALSE]            \* column-only endpoint
  ELSE IF ~e.ac /\ ~e.ar THEN [e EXCEPT !.ac = TRUE,  !.ar = TRUE]
  ELSE IF  e.ac /\  e.ar THEN [e EXCEPT !.ac = FALSE, !.ar = TRUE]
  ELSE IF ~e.ac /\  e.ar THEN [e EXCEPT !.ac = TRUE,  !.ar = FALSE]
  ELSE [e EXCEPT !.ac = FALSE, !.ar = FALSE]

Tok(pre, ends) == [pre |-> pre, ends |-> ends]
RECURSIVE EndsText(_)
EndsText(es) == IF Len(es) = 1 THEN EPText(es[1]) ELSE EPText(es[1]) \o <<":">> \o EndsText(Tail(es))
TokText(t) == t.pre \o EndsText(t.ends)
CycleTok(t) == [t EXCEPT !.ends = [i \in 1..Len(t.ends) |-> NextEP(EPUpper(t.ends[i]))]]
RECURSIVE CycleN(_, _)
CycleN(t, n) == IF n = 0 THEN t ELSE CycleN(CycleTok(t), n - 1)

(* what a token refers to: its text without $ markers, upper-cased *)
Strip(t) == [t EXCEPT !.ends = [i \in 1..Len(t.ends) |-> [EPUpper(t.ends[i]) EXCEPT !.ac = FALSE, !.ar = FALSE]]]

(* ---- the token and separator pools --------------------------------------- *)
A == <<"A">>  B == <<"B">>  One == <<"1">>  Two == <<"2">>
RefPool == {
  Tok(<<>>, <<EP(A, One, FALSE, FALSE)>>),                                   \* A1
  Tok(<<>>, <<EP(A, One, TRUE, TRUE)>>),                                     \* $A$1
  Tok(<<>>, <<EP(A, One, FALSE, TRUE)>>),                                    \* A$1
  Tok(<<>>, <<EP(A, One, TRUE, FALSE)>>),                                    \* $A1
  Tok(<<>>, <<EP(<<"a">>, One, FALSE, FALSE)>>),                             \* a1
  Tok(<<>>, <<EP(A, One, FALSE, FALSE), EP(B, Two, FALSE, FALSE)>>),         \* A1:B2
  Tok(<<>>, <<EP(A, One, TRUE, FALSE), EP(B, Two, FALSE, TRUE)>>),           \* $A1:B$2
  Tok(<<>>, <<EP(A, <<>>, FALSE, FALSE), EP(A, <<>>, FALSE, FALSE)>>),       \* A:A
  Tok(<<>>, <<EP(A, <<>>, TRUE, FALSE), EP(A, <<>>, FALSE, FALSE)>>),        \* $A:A
  Tok(<<>>, <<EP(<<>>, One, FALSE, FALSE), EP(<<>>, One, FALSE, FALSE)>>),   \* 1:1
  Tok(<<>>, <<EP(<<>>, One, FALSE, FALSE), EP(<<>>, Two, TRUE, FALSE)>>),    \* 1:$2   (a leading $ of a row-only endpoint)
  Tok(<<"S","h","e","e","t","2","!">>, <<EP(A, One, FALSE, FALSE)>>),        \* Sheet2!A1
  Tok(<<"'","M","y"," ","S","'","!">>, <<EP(A, One, FALSE, FALSE), EP(B, Two, FALSE, FALSE)>>)   \* 'My S'!A1:B2
}
FirstSep == { <<>>, <<"S","U","M","(">> }
MidSep   == { <<"+">>, <<",">>, <<" ">>, <<"+"," ">> }
LastSep  == { <<>>, <<")">>, <<"+","1">> }

(* a formula: seps[1] tok[1] seps[2] tok[2] ... seps[n+1] *)
Formulas == UNION { [toks : [1..n -> RefPool], seps : {s \in [1..(n + 1) -> FirstSep \cup MidSep \cup LastSep] :
                        s[1] \in FirstSep /\ s[n + 1] \in LastSep /\ \A i \in 2..n : s[i] \in MidSep}] : n \in 1..MaxRefs }

N(f) == Len(f.toks)
RECURSIVE Concat(_, _, _)
Concat(f, toks, i) ==   \* text from separator i on, with the given token texts
  IF i > N(f) THEN f.seps[i] ELSE f.seps[i] \o TokText(toks[i]) \o Concat(f, toks, i + 1)
Text(f, toks) == <<"=">> \o Concat(f, toks, 1)

RECURSIVE StartOf(_, _)
StartOf(f, i) == IF i = 1 THEN 1 + Len(f.seps[1]) ELSE StartOf(f, i - 1) + Len(TokText(f.toks[i - 1])) + Len(f.seps[i])
EndOf(f, i) == StartOf(f, i) + Len(TokText(f.toks[i]))
RECURSIVE TrailWs(_)
TrailWs(s) == IF s = <<>> \/ s[Len(s)] # " " THEN 0 ELSE 1 + TrailWs(SubSeq(s, 1, Len(s) - 1))

(* selection [a, b] in cursor positions 0..Len(text) *)
Touches(lo, hi, a, b) == ~(lo > b \/ a > hi)
Must(f, i, a, b) == Touches(StartOf(f, i), EndOf(f, i), a, b)
(* whitespace directly before a token may or may not count as part of it *)
May(f, i, a, b)  == ~Must(f, i, a, b) /\ Touches(StartOf(f, i) - TrailWs(f.seps[i]), EndOf(f, i), a, b)

Apply(f, S) == [i \in 1..N(f) |-> IF i \in S THEN CycleTok(f.toks[i]) ELSE f.toks[i]]
MustSet(f, a, b) == {i \in 1..N(f) : Must(f, i, a, b)}
MaySet(f, a, b)  == {i \in 1..N(f) : May(f, i, a, b)}
Accepted(f, a, b) == { Text(f, Apply(f, MustSet(f, a, b) \cup X)) : X \in SUBSET MaySet(f, a, b) }

(* ---- cases: every formula with every selection ---------------------------- *)
VARIABLE c
FInit == \E f \in Formulas : \E a \in 0..Len(Text(f, f.toks)) : \E b \in a..Len(Text(f, f.toks)) :
           /\ (AllSelections \/ a = b \/ b = Len(Text(f, f.toks)))
           /\ c = [f |-> f, a |-> a, b |-> b]
FSpec == FInit /\ [][UNCHANGED c]_c

(* ---- the property on the design ------------------------------------------- *)
UpperTok(t) == [t EXCEPT !.ends = [k \in 1..Len(t.ends) |-> EPUpper(t.ends[k])]]
Period4     == \A i \in 1..N(c.f) : TokText(CycleN(c.f.toks[i], 4)) = TokText(UpperTok(c.f.toks[i]))
OnlyDollars == \A i \in 1..N(c.f) : TokText(Strip(CycleTok(c.f.toks[i]))) = TokText(Strip(c.f.toks[i]))

Emit == PrintT(<<"CASE", ToJson([text |-> Text(c.f, c.f.toks), a |-> c.a, b |-> c.b,
                                  accepted |-> Accepted(c.f, c.a, c.b),
                                  touched |-> Cardinality(MustSet(c.f, c.a, c.b)),
                                  maybe |-> Cardinality(MaySet(c.f, c.a, c.b)),
                                  one4 |-> Text(c.f, [i \in 1..N(c.f) |-> IF i \in MustSet(c.f, c.a, c.b) THEN CycleN(c.f.toks[i], 4) ELSE c.f.toks[i]]),
                                  all4 |-> Text(c.f, [i \in 1..N(c.f) |-> CycleN(c.f.toks[i], 4)])])>>)
=============================================================================
