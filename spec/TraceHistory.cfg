SPECIFICATION TraceSpec
CONSTANTS
  Doc = {0}
INVARIANT TraceInv
POSTCONDITION TraceAccepted
CHECK_DEADLOCK FALSE
