SPECIFICATION SmallSpec
CONSTANTS
  LastRow = 1048576
  LastCol = 16384
  MaxSheets = 3
  Cells <- MCCellsSmall
  OffGrid <- MCOffGrid
  MaxSteps = 0
  MaxHist = 2
CONSTRAINT SmallConstraint
INVARIANT SelOK
CHECK_DEADLOCK FALSE
