------------------------------- MODULE Styles -------------------------------
(***************************************************************************)
(* C30 - styles are stored and read back faithfully.                        *)
(*                                                                         *)
(* A style is a record over the attribute space (number format, font, fill, *)
(* border, alignment, quote prefix).  Assign(target, style) gives a cell, a *)
(* row or a column a style.  ReadBack: what is read for a target is the     *)
(* last style assigned to it; NoAliasing: an assignment never changes what  *)
(* any other target reads.  The implementation stores styles in a           *)
(* deduplicating pool; this module is what that pool must be invisible      *)
(* behind.                                                                  *)
(***************************************************************************)
EXTENDS Integers, Sequences, FiniteSets, TLC, Json

CONSTANT MaxSteps

St(fmt, font, fill, border, align, qp) == [fmt |-> fmt, font |-> font, fill |-> fill, border |-> border, align |-> align, qp |-> qp]
Default == St("general", "default", "none", "none", "none", FALSE)
Unset == St("unset", "unset", "unset", "unset", "unset", FALSE)   \* "never assigned" (no row / column style)
(* a pool in which every style has neighbours differing in exactly one attribute, including
   custom formats that coincide with built-in ones and the all-default alignment record *)
StylePool == {
  Default,
  St("0.00", "default", "none", "none", "none", FALSE),
  St("#,##0", "default", "none", "none", "none", FALSE),
  St("0.0 \"x\"", "default", "none", "none", "none", FALSE),
  St("mm-dd-yy", "default", "none", "none", "none", FALSE),        \* text of built-in format 14
  St("@", "default", "none", "none", "none", FALSE),               \* the last built-in format: its id borders the first custom id
  St("##0.0E+0", "default", "none", "none", "none", FALSE),        \* the last but one
  St("0.000 \"kg\"", "default", "none", "none", "none", FALSE),     \* a second custom format
  St("General", "default", "none", "none", "none", FALSE),         \* differs from "general" only by case
  St("general", "bold", "none", "none", "none", FALSE),
  St("general", "italic14", "none", "none", "none", FALSE),
  St("general", "red", "none", "none", "none", FALSE),
  St("general", "theme4", "none", "none", "none", FALSE),
  St("general", "default", "yellow", "none", "none", FALSE),
  St("general", "default", "none", "thintop", "none", FALSE),
  St("general", "default", "none", "mediumall", "none", FALSE),
  St("general", "default", "none", "none", "center", FALSE),
  St("general", "default", "none", "none", "wrap", FALSE),
  St("general", "default", "none", "none", "alldefault", FALSE),  \* Some(Alignment::default())
  St("general", "default", "none", "none", "none", TRUE),
  St("0.00", "bold", "yellow", "thintop", "center", FALSE)
}

(* targets: two cells, a row, a column; plus probes that are never assigned *)
Targets == {"cellA1", "cellB2", "row3", "colD"}

VARIABLES assigned,     \* target -> style (Default if never assigned)
          trail, steps
svars == <<assigned, trail, steps>>

SInit == assigned = [t \in Targets |-> Unset] /\ trail = <<>> /\ steps = 0

(* what the getters must return *)
Read(a) == [cellA1 |-> IF a["cellA1"] = Unset THEN Default ELSE a["cellA1"],
            cellB2 |-> IF a["cellB2"] = Unset THEN Default ELSE a["cellB2"],
            row3 |-> a["row3"],                      \* Unset = no row style
            colD |-> a["colD"],
            \* a cell of the styled row / column that was never touched shows the row / column style;
            \* where a styled row and a styled column cross, the row wins
            probeRow |-> IF a["row3"] = Unset THEN Default ELSE a["row3"],
            probeCol |-> IF a["colD"] = Unset THEN Default ELSE a["colD"],
            \* (a row given the default style is the same as a row without style: the column shows through)
            probeCross |-> IF a["row3"] \notin {Unset, Default} THEN a["row3"] ELSE IF a["colD"] # Unset THEN a["colD"] ELSE Default]

Assign(t, s) ==
  /\ steps < MaxSteps
  /\ assigned' = [assigned EXCEPT ![t] = s]
  /\ steps' = steps + 1
  /\ trail' = Append(trail, [a |-> [op |-> "assign", target |-> t, style |-> s], expect |-> Read(assigned')])

SNext == \E t \in Targets, s \in StylePool : Assign(t, s)
SSpec == SInit /\ [][SNext]_svars

(* C30 on the design *)
ReadBack == \A t \in Targets : assigned[t] # Unset => Read(assigned)[t] = assigned[t]
NoAliasing == [][ \A t \in Targets : (\E u \in Targets : u # t /\ assigned'[u] # assigned[u]) => Read(assigned')[t] = Read(assigned)[t] ]_svars

Emit == (steps = MaxSteps) => PrintT(<<"BEHAVIOUR", ToJson(trail)>>)
=============================================================================
