--------------------------- MODULE TraceSelection ---------------------------
(* C28 on recorded histories: the raw selection state of the real model is  *)
(* logged after every public call (including failed calls, undo, redo,      *)
(* reload); SelOK of Selection.tla is evaluated on every logged state.      *)
(* A state that breaks it is printed once, at the event that broke it.      *)
EXTENDS Integers, Sequences, TLC, Json, IOUtils

CONSTANTS LastRow, LastCol
Rec == ndJsonDeserialize(IOEnv.TRACE)

VARIABLES l, bad
tvars == <<l, bad>>

InGrid(r, c) == r \in 1..LastRow /\ c \in 1..LastCol
Min(a, b) == IF a <= b THEN a ELSE b
Max(a, b) == IF a >= b THEN a ELSE b
ViewOK(v) ==
  /\ InGrid(v.row, v.col)
  /\ InGrid(v.range[1], v.range[2]) /\ InGrid(v.range[3], v.range[4])
  /\ Min(v.range[1], v.range[3]) <= v.row /\ v.row <= Max(v.range[1], v.range[3])
  /\ Min(v.range[2], v.range[4]) <= v.col /\ v.col <= Max(v.range[2], v.range[4])

SheetExists(w) == w.sheet \in 0..(w.n - 1)
SelOK(w) == SheetExists(w) /\ ViewOK(w.sheets[w.sheet + 1])

Why(w) ==
  IF ~SheetExists(w) THEN "selected-sheet-missing"
  ELSE LET v == w.sheets[w.sheet + 1] IN
       IF ~InGrid(v.row, v.col) THEN "cell-outside-grid"
       ELSE IF ~(InGrid(v.range[1], v.range[2]) /\ InGrid(v.range[3], v.range[4])) THEN "range-outside-grid"
       ELSE "cell-outside-range"

TraceInit == l = 1 /\ bad = FALSE
TraceNext ==
  /\ l <= Len(Rec) /\ l' = l + 1
  /\ LET w == Rec[l].view IN
     IF SelOK(w) THEN bad' = FALSE
     ELSE /\ bad' = TRUE
          /\ (bad /\ Rec[l].ev # "reset") \/ PrintT(<<"VIOL", l, "C28", Why(w), Rec[l].kind, Rec[l].res>>)
TraceSpec == TraceInit /\ [][TraceNext]_tvars

TraceAccepted ==
  LET d == TLCGet("stats").diameter IN
  IF d - 1 = Len(Rec) THEN PrintT(<<"ACCEPTED", Len(Rec)>>)
  ELSE Print(<<"REJECTED at event", d>>, FALSE)
=============================================================================
