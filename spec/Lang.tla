-------------------------------- MODULE Lang --------------------------------
(***************************************************************************)
(* C23 - function and error names round-trip in every language.            *)
(*                                                                         *)
(* The name tables are data of the implementation.  The harness records,   *)
(* for every built-in function and every error kind, the name it prints in *)
(* every language and in xlsx form together with what the implementation's *)
(* own parser / lookup returns for that name.  This module states what     *)
(* must hold of those records; TLC evaluates it over the complete table.   *)
(***************************************************************************)
EXTENDS Integers, Sequences, FiniteSets, TLC, Json, IOUtils

Rec == ndJsonDeserialize(IOEnv.TRACE)
Langs == {"en", "es", "fr", "de", "it"}
Fns  == {i \in 1..Len(Rec) : Rec[i].ev = "fn"}
Errs == {i \in 1..Len(Rec) : Rec[i].ev = "err"}

(* every localized name parses back to the same function / error *)
FnRoundTrip(i)   == \A l \in Langs : Rec[i].back[l] = Rec[i].id
FnXlsxRoundTrip(i) == Rec[i].xlsx_back = Rec[i].id
ErrRoundTrip(i)  == \A l \in Langs : Rec[i].back[l] = Rec[i].id /\ Rec[i].parsed[l] = Rec[i].id
ErrXlsxRoundTrip(i) == Rec[i].xlsx_back = Rec[i].id

(* no two functions share a name in a language, nor an xlsx name; same for errors *)
Distinct(S, f(_)) == \A i, j \in S : i < j => f(i) # f(j)
FnInjective  == /\ \A l \in Langs : \A i, j \in Fns : i < j => Rec[i].names[l] # Rec[j].names[l]
                /\ \A i, j \in Fns : i < j => Rec[i].xlsx # Rec[j].xlsx
ErrInjective == /\ \A l \in Langs : \A i, j \in Errs : i < j => Rec[i].names[l] # Rec[j].names[l]
                /\ \A i, j \in Errs : i < j => Rec[i].xlsx # Rec[j].xlsx

VARIABLE l
Init == l = 1
Next == l <= Len(Rec) /\ l' = l + 1 /\
        LET r == Rec[l] IN
        IF r.ev = "fn"
          THEN /\ FnRoundTrip(l) \/ PrintT(<<"VIOL", l, "C23", "function-name-roundtrip", r.names.en, ToJson(r.back)>>)
               /\ FnXlsxRoundTrip(l) \/ PrintT(<<"VIOL", l, "C23", "function-xlsx-name-roundtrip", r.names.en, r.xlsx>>)
          ELSE /\ ErrRoundTrip(l) \/ PrintT(<<"VIOL", l, "C23", "error-name-roundtrip", r.names.en, ToJson(r.back)>>)
               /\ ErrXlsxRoundTrip(l) \/ PrintT(<<"VIOL", l, "C23", "error-xlsx-name-roundtrip", r.names.en, r.xlsx>>)
Spec == Init /\ [][Next]_l

Collisions ==
  {<<Rec[i].names.en, Rec[j].names.en, ll>> : <<i, j, ll>> \in {<<i, j, ll>> \in Fns \X Fns \X Langs : i < j /\ Rec[i].names[ll] = Rec[j].names[ll]}}
InjectiveReport ==
  l = 1 => /\ (FnInjective \/ PrintT(<<"VIOL", 0, "C23", "function-name-collision", ToJson(Collisions), "">>))
           /\ (ErrInjective \/ PrintT(<<"VIOL", 0, "C23", "error-name-collision", "", "">>))

TraceAccepted ==
  LET d == TLCGet("stats").diameter IN
  IF d - 1 = Len(Rec) THEN PrintT(<<"ACCEPTED", Len(Rec)>>) ELSE Print(<<"REJECTED at event", d>>, FALSE)
=============================================================================
