SPECIFICATION BehSpec
CONSTANTS
  Doc = {0, 1, 2, 3, 4, 5, 6, 7}
  MaxSteps = 5
  MaxTimeline = 9
  MaxQueue = 9
  MaxNet = 2
INVARIANTS TypeOK CursorModel ReplicaNeverStuck ReplicaTracks Converged Emit
CHECK_DEADLOCK FALSE
