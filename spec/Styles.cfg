SPECIFICATION SSpec
CONSTANTS
  MaxSteps = 2
INVARIANTS ReadBack Emit
PROPERTY NoAliasing
CHECK_DEADLOCK FALSE
