--------------------------- MODULE TraceWellFormed ---------------------------
(***************************************************************************)
(* C27 - workbook structure stays well-formed.                             *)
(*                                                                         *)
(* The structural projection `wf` of the real workbook (raw indices, pool  *)
(* sizes, descriptor lists, array anchors and spill cells, defined-name    *)
(* scopes) is logged after EVERY public call of a history - successful or   *)
(* failed, undo, redo, replica application, reload - and the predicate      *)
(* WellFormed below is evaluated by TLC on every logged state.              *)
(***************************************************************************)
EXTENDS Integers, Sequences, FiniteSets, TLC, Json, IOUtils

CONSTANTS LastRow, LastCol
Rec == ndJsonDeserialize(IOEnv.TRACE)

VARIABLES l, bad
tvars == <<l, bad>>

Forbidden == {"\\", "/", "*", "?", ":", "[", "]"}
Idx(s) == 1..Len(s)

(* (a) sheet names valid and unique ignoring case, sheet ids unique *)
NamesOK(w) ==
  /\ \A i \in Idx(w.sheets) :
        LET s == w.sheets[i] IN
        /\ Len(s.chars) \in 1..31
        /\ \A k \in Idx(s.chars) : s.chars[k] \notin Forbidden
  /\ \A i, j \in Idx(w.sheets) : i # j => (w.sheets[i].lname # w.sheets[j].lname /\ w.sheets[i].id # w.sheets[j].id)

(* (b) every cell inside the grid, every index it uses exists: <<r, c, style, string, formula>> *)
CellsOK(w) ==
  \A i \in Idx(w.sheets) :
    LET s == w.sheets[i] IN
    \A k \in Idx(s.cells) :
      LET c == s.cells[k] IN
      /\ c[1] \in 1..LastRow /\ c[2] \in 1..LastCol
      /\ c[3] \in 0..(w.nxfs - 1)
      /\ c[4] = -1 \/ c[4] \in 0..(w.nss - 1)
      /\ c[5] = -1 \/ c[5] \in 0..(s.nf - 1)

(* (c) column descriptors sorted and non-overlapping, inside the grid; row descriptors unique *)
DescsOK(w) ==
  \A i \in Idx(w.sheets) :
    LET s == w.sheets[i] IN
    /\ \A k \in Idx(s.cols) :
          /\ 1 <= s.cols[k][1] /\ s.cols[k][1] <= s.cols[k][2] /\ s.cols[k][2] <= LastCol
          /\ s.cols[k][3] = -1 \/ s.cols[k][3] \in 0..(w.nxfs - 1)
          /\ k > 1 => s.cols[k - 1][2] < s.cols[k][1]
    /\ \A k, m \in Idx(s.rows) : k # m => s.rows[k][1] # s.rows[m][1]
    /\ \A k \in Idx(s.rows) : s.rows[k][1] \in 1..LastRow /\ s.rows[k][2] \in 0..(w.nxfs - 1)

(* (d) spills: anchors <<r, c, width, height, dynamic>>, spill cells <<r, c, anchor r, anchor c>> *)
Covers(a, r, c) == a[1] <= r /\ r < a[1] + a[4] /\ a[2] <= c /\ c < a[2] + a[3]
Overlap(a, b) == ~(a[1] + a[4] <= b[1] \/ b[1] + b[4] <= a[1] \/ a[2] + a[3] <= b[2] \/ b[2] + b[3] <= a[2])
SpillsOK(w) ==
  \A i \in Idx(w.sheets) :
    LET s == w.sheets[i] IN
    /\ \A k \in Idx(s.spills) :
          \E m \in Idx(s.anchors) :
             /\ s.anchors[m][1] = s.spills[k][3] /\ s.anchors[m][2] = s.spills[k][4]
             /\ Covers(s.anchors[m], s.spills[k][1], s.spills[k][2])
    /\ \A k, m \in Idx(s.anchors) : k # m => ~Overlap(s.anchors[k], s.anchors[m])
    /\ \A k \in Idx(s.anchors) : s.anchors[k][3] >= 1 /\ s.anchors[k][4] >= 1

(* (e) defined names refer to existing sheets: <<name, scope sheet id or -1>> *)
ScopesOK(w) ==
  \A k \in Idx(w.names) :
     w.names[k][2] = -1 \/ \E i \in Idx(w.sheets) : w.sheets[i].id = w.names[k][2]

WellFormed(w) == NamesOK(w) /\ CellsOK(w) /\ DescsOK(w) /\ SpillsOK(w) /\ ScopesOK(w)

Why(w) ==
  IF ~NamesOK(w) THEN "sheet-names"
  ELSE IF ~CellsOK(w) THEN "cell-index-or-position"
  ELSE IF ~DescsOK(w) THEN "row-column-descriptors"
  ELSE IF ~SpillsOK(w) THEN "spill-structure"
  ELSE "defined-name-scope"

TraceInit == l = 1 /\ bad = FALSE
TraceNext ==
  /\ l <= Len(Rec) /\ l' = l + 1
  /\ LET w == Rec[l].wf IN
     IF WellFormed(w) THEN bad' = FALSE
     ELSE /\ bad' = TRUE
          /\ (bad /\ Rec[l].ev # "reset") \/ PrintT(<<"VIOL", l, "C27", Why(w), Rec[l].kind, Rec[l].res>>)
TraceSpec == TraceInit /\ [][TraceNext]_tvars

TraceAccepted ==
  LET d == TLCGet("stats").diameter IN
  IF d - 1 = Len(Rec) THEN PrintT(<<"ACCEPTED", Len(Rec)>>)
  ELSE Print(<<"REJECTED at event", d>>, FALSE)
=============================================================================
