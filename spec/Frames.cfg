SPECIFICATION FSpec
CONSTANTS
  SheetNames = {"a", "b", "c"}
PROPERTIES RenameKeepsResolved OthersKeepSpelling
CHECK_DEADLOCK FALSE
