------------------------------ MODULE Formula ------------------------------
(***************************************************************************)
(* C09 - printing a formula and parsing it back preserves its meaning.      *)
(*                                                                         *)
(* Syntax trees of the formula language, their fully parenthesised text     *)
(* Full(t), their minimally parenthesised text Min(t) (by precedence and    *)
(* associativity), and a recursive-descent parser Parse over tokens for the *)
(* grammar the engine accepts:                                              *)
(*   comparison < & < + - < * / < ^ (all left-associative) < postfix %      *)
(*   < prefix sign < primary                                                *)
(* (a sign is applied to its operand before a following %: -5% = (-5)%).    *)
(* TLC checks Parse(Min(t)) = t and Parse(Full(t)) = t on every enumerated  *)
(* tree - the precedence table and the parenthesisation rule agree - and    *)
(* prints each tree with both texts for replay on the real parser and the   *)
(* real printers.                                                           *)
(***************************************************************************)
EXTENDS Integers, Sequences, FiniteSets, TLC, Json

CONSTANT Depth

CmpOps == {"=", "<>", "<", "<=", ">", ">="}
BinOps == CmpOps \cup {"&", "+", "-", "*", "/", "^"}
Prec(op) == IF op \in CmpOps THEN 1 ELSE IF op = "&" THEN 2 ELSE IF op \in {"+", "-"} THEN 3
            ELSE IF op \in {"*", "/"} THEN 4 ELSE 5
PctPrec == 6
UnPrec == 7
LeafPrec == 9

Num(v) == [k |-> "num", v |-> v]
Str(v) == [k |-> "str", v |-> v]
Bool(v) == [k |-> "bool", v |-> v]
Ref(v) == [k |-> "ref", v |-> v]
Bin(op, l, r) == [k |-> "bin", op |-> op, l |-> l, r |-> r]
Un(x) == [k |-> "un", x |-> x]
Pct(x) == [k |-> "pct", x |-> x]
Fn(name, args) == [k |-> "fn", name |-> name, args |-> args]

PrecOf(t) == CASE t.k = "bin" -> Prec(t.op) [] t.k = "un" -> UnPrec [] t.k = "pct" -> PctPrec [] OTHER -> LeafPrec

(* ---- tokens --------------------------------------------------------------- *)
Tk(k, v) == [k |-> k, v |-> v]
LP == Tk("lp", "(")  RP == Tk("rp", ")")  COMMA == Tk("comma", ",")
Paren(ts) == <<LP>> \o ts \o <<RP>>

RECURSIVE Full(_), Min(_), ArgsFull(_), ArgsMin(_)
LeafTok(t) == IF t.k = "str" THEN <<Tk("str", t.v)>> ELSE <<Tk(t.k, t.v)>>
ArgsFull(args) == IF args = <<>> THEN <<>> ELSE IF Len(args) = 1 THEN Full(args[1]) ELSE Full(args[1]) \o <<COMMA>> \o ArgsFull(Tail(args))
ArgsMin(args) == IF args = <<>> THEN <<>> ELSE IF Len(args) = 1 THEN Min(args[1]) ELSE Min(args[1]) \o <<COMMA>> \o ArgsMin(Tail(args))
Wrap(t, ts) == IF t.k \in {"bin", "un", "pct"} THEN Paren(ts) ELSE ts
Full(t) ==
  CASE t.k = "bin" -> Wrap(t.l, Full(t.l)) \o <<Tk("op", t.op)>> \o Wrap(t.r, Full(t.r))
    [] t.k = "un"  -> <<Tk("op", "-")>> \o Wrap(t.x, Full(t.x))
    [] t.k = "pct" -> Wrap(t.x, Full(t.x)) \o <<Tk("op", "%")>>
    [] t.k = "fn"  -> <<Tk("fn", t.name), LP>> \o ArgsFull(t.args) \o <<RP>>
    [] OTHER -> LeafTok(t)
(* minimal parentheses: a child is parenthesised when it binds less tightly than its parent,
   or equally tightly on the right of a left-associative operator *)
Min(t) ==
  CASE t.k = "bin" -> (IF PrecOf(t.l) < Prec(t.op) THEN Paren(Min(t.l)) ELSE Min(t.l)) \o <<Tk("op", t.op)>> \o
                      (IF PrecOf(t.r) <= Prec(t.op) THEN Paren(Min(t.r)) ELSE Min(t.r))
    [] t.k = "un"  -> <<Tk("op", "-")>> \o (IF PrecOf(t.x) < LeafPrec THEN Paren(Min(t.x)) ELSE Min(t.x))
    [] t.k = "pct" -> (IF PrecOf(t.x) < PctPrec THEN Paren(Min(t.x)) ELSE Min(t.x)) \o <<Tk("op", "%")>>
    [] t.k = "fn"  -> <<Tk("fn", t.name), LP>> \o ArgsMin(t.args) \o <<RP>>
    [] OTHER -> LeafTok(t)

(* ---- recursive-descent parser: every operator returns <<tree, remaining tokens>> ---- *)
Err == [k |-> "error"]
IsOp(ts, S) == ts # <<>> /\ ts[1].k = "op" /\ ts[1].v \in S
RECURSIVE PExpr(_), PCmpTail(_, _), PConcat(_), PConcatTail(_, _), PAdd(_), PAddTail(_, _), PMul(_), PMulTail(_, _),
          PPow(_), PPowTail(_, _), PSigned(_), PPctTail(_, _), PPrimary(_), PArgs(_, _)
PExpr(ts) == LET a == PConcat(ts) IN IF a[1] = Err THEN a ELSE PCmpTail(a[1], a[2])
PCmpTail(left, ts) == IF IsOp(ts, CmpOps) THEN LET b == PConcat(Tail(ts)) IN IF b[1] = Err THEN b ELSE PCmpTail(Bin(ts[1].v, left, b[1]), b[2]) ELSE <<left, ts>>
PConcat(ts) == LET a == PAdd(ts) IN IF a[1] = Err THEN a ELSE PConcatTail(a[1], a[2])
PConcatTail(left, ts) == IF IsOp(ts, {"&"}) THEN LET b == PAdd(Tail(ts)) IN IF b[1] = Err THEN b ELSE PConcatTail(Bin("&", left, b[1]), b[2]) ELSE <<left, ts>>
PAdd(ts) == LET a == PMul(ts) IN IF a[1] = Err THEN a ELSE PAddTail(a[1], a[2])
PAddTail(left, ts) == IF IsOp(ts, {"+", "-"}) THEN LET b == PMul(Tail(ts)) IN IF b[1] = Err THEN b ELSE PAddTail(Bin(ts[1].v, left, b[1]), b[2]) ELSE <<left, ts>>
PMul(ts) == LET a == PPow(ts) IN IF a[1] = Err THEN a ELSE PMulTail(a[1], a[2])
PMulTail(left, ts) == IF IsOp(ts, {"*", "/"}) THEN LET b == PPow(Tail(ts)) IN IF b[1] = Err THEN b ELSE PMulTail(Bin(ts[1].v, left, b[1]), b[2]) ELSE <<left, ts>>
PPow(ts) == LET a == PSigned(ts) IN IF a[1] = Err THEN a ELSE PPowTail(a[1], a[2])
PPowTail(left, ts) == IF IsOp(ts, {"^"}) THEN LET b == PSigned(Tail(ts)) IN IF b[1] = Err THEN b ELSE PPowTail(Bin("^", left, b[1]), b[2]) ELSE <<left, ts>>
(* prefix sign applied to a primary, then postfix percent signs *)
PSigned(ts) ==
  IF IsOp(ts, {"-"}) THEN LET a == PPrimary(Tail(ts)) IN IF a[1] = Err THEN a ELSE PPctTail(Un(a[1]), a[2])
  ELSE LET a == PPrimary(ts) IN IF a[1] = Err THEN a ELSE PPctTail(a[1], a[2])
PPctTail(left, ts) == IF IsOp(ts, {"%"}) THEN PPctTail(Pct(left), Tail(ts)) ELSE <<left, ts>>
PPrimary(ts) ==
  IF ts = <<>> THEN <<Err, ts>>
  ELSE IF ts[1].k \in {"num", "str", "bool", "ref"} THEN <<[k |-> ts[1].k, v |-> ts[1].v], Tail(ts)>>
  ELSE IF ts[1].k = "lp" THEN LET a == PExpr(Tail(ts)) IN
       IF a[1] = Err \/ a[2] = <<>> \/ a[2][1].k # "rp" THEN <<Err, ts>> ELSE <<a[1], Tail(a[2])>>
  ELSE IF ts[1].k = "fn" /\ Len(ts) >= 3 /\ ts[2].k = "lp" THEN
       (IF ts[3].k = "rp" THEN <<Fn(ts[1].v, <<>>), SubSeq(ts, 4, Len(ts))>> ELSE PArgs(Fn(ts[1].v, <<>>), SubSeq(ts, 3, Len(ts))))
  ELSE <<Err, ts>>
PArgs(f, ts) ==
  LET a == PExpr(ts) IN
  IF a[1] = Err \/ a[2] = <<>> THEN <<Err, ts>>
  ELSE IF a[2][1].k = "rp" THEN <<[f EXCEPT !.args = Append(@, a[1])], Tail(a[2])>>
  ELSE IF a[2][1].k = "comma" THEN PArgs([f EXCEPT !.args = Append(@, a[1])], Tail(a[2]))
  ELSE <<Err, ts>>
Parse(ts) == LET a == PExpr(ts) IN IF a[1] # Err /\ a[2] = <<>> THEN a[1] ELSE Err

(* ---- enumeration ------------------------------------------------------------ *)
Leaves == {Num("1"), Num("2.5"), Str("a"), Bool("TRUE"), Ref("B2")}
Step(S) == S \cup {Bin(op, l, r) : op \in BinOps, l \in S, r \in S}
           \cup {Un(x) : x \in {y \in S : y.k # "pct" /\ y.k # "un"}}      \* -(x%) and x%: one spelling only; signs are folded
           \cup {Pct(x) : x \in S}
           \cup {Fn("SUM", <<x, y>>) : x \in S, y \in {Num("1")}}
Small == {Num("1"), Num("2.5"), Ref("B2")}
(* depth 1 over all leaves; depth 2 over a smaller leaf set, every (parent, child, side) combination *)
D1 == Step(Leaves)
D1s == Step(Small)
D2 == D1 \cup {Bin(op, l, r) : op \in BinOps, l \in D1s, r \in Small} \cup {Bin(op, l, r) : op \in BinOps, l \in Small, r \in D1s}
         \cup {Un(x) : x \in {y \in D1s : y.k # "pct" /\ y.k # "un"}} \cup {Pct(x) : x \in D1s}
         \cup {Fn("SUM", <<x, Num("1")>>) : x \in D1s}
Trees == IF Depth = 1 THEN D1 ELSE D2

VARIABLE t
TInit == t \in Trees
TSpec == TInit /\ [][UNCHANGED t]_t

(* ---- C09 on the design ------------------------------------------------------- *)
MinRoundTrip  == Parse(Min(t)) = t
FullRoundTrip == Parse(Full(t)) = t

Emit == PrintT(<<"CASE", ToJson([tree |-> t, full |-> Full(t), min |-> Min(t)])>>)
=============================================================================
