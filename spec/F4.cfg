SPECIFICATION FSpec
CONSTANTS
  MaxRefs = 2
  AllSelections = FALSE
INVARIANTS Period4 OnlyDollars Emit
CHECK_DEADLOCK FALSE
