------------------------------- MODULE Tokens -------------------------------
(***************************************************************************)
(* C11 - text inputs never crash the engine.                               *)
(*                                                                         *)
(* The input space as a state machine: an input is a sequence of tokens,    *)
(* one concrete spelling per token class of the formula and number-format   *)
(* lexers (numbers, strings - also unterminated -, identifiers, function    *)
(* calls, references in A1 and R1C1 form - also out of range -, sheet        *)
(* prefixes, every operator, brackets and braces, separators of both        *)
(* locales, error literals, structured-reference fragments, whitespace,     *)
(* non-ASCII letters, an emoji, a combining mark, NUL, format placeholders). *)
(* Call(api, input) has outcome "ok" or "err"; "panic" and "timeout" are     *)
(* not in the type.  TLC enumerates every sequence up to MaxLen.            *)
(***************************************************************************)
EXTENDS Integers, Sequences, FiniteSets, TLC, Json

CONSTANT MaxLen

Classes == {
  "1", "2.5", "1e308", ".", "\"a\"", "\"un", "abc", "SUM(", "A1", "$B$2", "XFE1048577", "R[-1]C[2]", "A1:B2", "B2:", ":C3",
  "Sheet1!", "'My Sheet'!", "'un", "+", "-", "*", "/", "^", "&", "%", "=", "<", ">", "<>", "(", ")", "{", "}", "[", "]", ",", ";", ":",
  "#", "@", "!", "#REF!", "#N/A", "Table1[", "[@col]", " ", "é", "🙂", "é", "0", "#,##0", "0.00", "E+00", "yyyy", "[Red]", "\\", "_", "?", "<NUL>", "<TAB>", "<NL>" }

Outcome == {"ok", "err"}

RECURSIVE Seqs(_)
Seqs(n) == IF n = 0 THEN {<<>>} ELSE LET P == Seqs(n - 1) IN P \cup {Append(p, x) : p \in {q \in P : Len(q) = n - 1}, x \in Classes}

VARIABLES input, outcome
TInit == input \in Seqs(MaxLen) \ {<<>>} /\ outcome = "pending"
(* the call returns: the only admissible results *)
Call == outcome = "pending" /\ outcome' \in Outcome /\ UNCHANGED input
TSpec == TInit /\ [][Call]_<<input, outcome>>
TypeOK == outcome \in Outcome \cup {"pending"}

Emit == outcome = "pending" => PrintT(<<"CASE", ToJson([tokens |-> input])>>)
=============================================================================
