--------------------------- MODULE MC_Selection ---------------------------
(* TLC wrapper: (a) SelOK on the reference model, exhaustively within the   *)
(* bounds; (b) every behaviour of MaxSteps actions printed with the harness *)
(* action and the expected selection after every step.                     *)
EXTENDS Selection, Json

CONSTANTS MaxSteps, MaxHist

MCCellsSmall == {<<2, 2>>, <<1048576, 16384>>}
MCCellsBeh == {<<1, 1>>, <<1048576, 16384>>}
MCOffGrid == {<<0, 1>>, <<1, 16385>>}
VARIABLES trail, steps
mcvars == <<svars, trail, steps>>

MCInit == SInit /\ trail = <<>> /\ steps = 0

(* Behaviours may also start from a workbook that already has three sheets, with any of them *)
(* selected; the trail then begins with the set-up calls that build this state.              *)
SetupExp(n, k) == [n |-> n, sel |-> k, pick |-> k, row |-> 1, col |-> 1, range |-> <<1, 1, 1, 1>>, cellexact |-> TRUE]
MCInit3 ==
  /\ sheets = <<NewView(1), NewView(2), NewView(3)>> /\ nextId = 4
  /\ sel \in 1..3
  /\ undoS = <<>> /\ redoS = <<>>
  /\ steps = 0
  /\ trail = << [a |-> [op |-> "new_sheet"], expect |-> SetupExp(2, 1)],
                [a |-> [op |-> "new_sheet"], expect |-> SetupExp(3, 2)],
                [a |-> [op |-> "sel_sheet", s |-> sel - 1], expect |-> SetupExp(3, sel - 1)] >>
SmallNext == SNext /\ UNCHANGED <<trail, steps>>
SmallSpec == MCInit /\ [][SmallNext]_mcvars
NearEdge(x, last) == x <= 2 \/ x >= last - 1
SmallConstraint ==
  /\ Len(undoS) <= MaxHist /\ Len(redoS) <= MaxHist
  /\ nextId <= MaxSheets + 3
  /\ \A i \in 1..Len(sheets) : NearEdge(sheets[i].row, LastRow) /\ NearEdge(sheets[i].col, LastCol)

(* expected observation; exact = the spec determines the selected sheet *)
Exp(exact) == [n |-> Len(sheets'), sel |-> IF exact THEN sel' - 1 ELSE -1, pick |-> sel' - 1,
               row |-> sheets'[sel'].row, col |-> sheets'[sel'].col, range |-> sheets'[sel'].range,
               cellexact |-> exact]
Log(a, exact) == trail' = Append(trail, [a |-> a, expect |-> Exp(exact)])
LogOpen(a) == trail' = Append(trail, [a |-> a, expect |-> [n |-> Len(sheets'), sel |-> -1, pick |-> sel' - 1, row |-> 0, col |-> 0,
                                                      range |-> <<0, 0, 0, 0>>, cellexact |-> FALSE]])

BehNext ==
  /\ steps < MaxSteps /\ steps' = steps + 1
  /\ \/ \E i \in 1..MaxSheets : SetSheet(i) /\ Log([op |-> "sel_sheet", s |-> i - 1], TRUE)
     \/ \E i \in 1..MaxSheets : DuplicateSheet(i) /\ Log([op |-> "dup_sheet", s |-> i - 1], TRUE)
     \/ \E i \in 1..MaxSheets : DeleteSheet(i) /\ LogOpen([op |-> "del_sheet", s |-> i - 1])
     \/ \E i \in 1..MaxSheets : HideSheet(i) /\ LogOpen([op |-> "hide_sheet", s |-> i - 1])
     \/ \E i, j \in 1..MaxSheets : MoveSheet(i, j) /\ Log([op |-> "move_sheet", s |-> i - 1, to |-> j - 1], TRUE)
     \/ \E p \in Cells : SetCell(p[1], p[2]) /\ Log([op |-> "sel_cell", r |-> p[1], c |-> p[2]], TRUE)
     \/ \E p \in OffGrid : RejectTarget(p[1], p[2]) /\ Log([op |-> "area_selecting", r |-> p[1], c |-> p[2]], TRUE)
     \/ \E p \in OffGrid : RejectTarget(p[1], p[2]) /\ Log([op |-> "sel_cell", r |-> p[1], c |-> p[2]], TRUE)
     \/ \E p, q \in Cells : SetRange(p[1], p[2], q[1], q[2]) /\
            Log([op |-> "sel_range", r1 |-> p[1], c1 |-> p[2], r2 |-> q[1], c2 |-> q[2]], TRUE)
     \/ Arrow(0, 1) /\ Log([op |-> "arrow", d |-> "right"], TRUE)
     \/ Arrow(0, -1) /\ Log([op |-> "arrow", d |-> "left"], TRUE)
     \/ Arrow(1, 0) /\ Log([op |-> "arrow", d |-> "down"], TRUE)
     \/ Arrow(-1, 0) /\ Log([op |-> "arrow", d |-> "up"], TRUE)
     \/ NewSheet /\ Log([op |-> "new_sheet"], TRUE)
     \/ UndoSheetOp /\ LogOpen([op |-> "undo"])
     \/ RedoSheetOp /\ LogOpen([op |-> "redo"])
BehSpec == MCInit /\ [][BehNext]_mcvars
(* sheet-level alphabet only: select a sheet, add / duplicate / delete, undo, redo (hide and move are in BehNext) *)
BehNextSheets ==
  /\ steps < MaxSteps /\ steps' = steps + 1
  /\ \/ \E i \in 1..MaxSheets : SetSheet(i) /\ Log([op |-> "sel_sheet", s |-> i - 1], TRUE)
     \/ \E i \in 1..MaxSheets : DuplicateSheet(i) /\ Log([op |-> "dup_sheet", s |-> i - 1], TRUE)
     \/ \E i \in 1..MaxSheets : DeleteSheet(i) /\ LogOpen([op |-> "del_sheet", s |-> i - 1])
     \/ NewSheet /\ Log([op |-> "new_sheet"], TRUE)
     \/ UndoSheetOp /\ LogOpen([op |-> "undo"])
     \/ RedoSheetOp /\ LogOpen([op |-> "redo"])
BehSpec3 == MCInit3 /\ [][BehNextSheets]_mcvars

Emit == (steps = MaxSteps) => PrintT(<<"BEHAVIOUR", ToJson(trail)>>)
=============================================================================
