-------------------------------- MODULE Value --------------------------------
(***************************************************************************)
(* C06 - a reference evaluator for the core formula language.               *)
(*                                                                         *)
(* Values are numbers (exact rationals n/d), strings, booleans, errors and  *)
(* the empty cell.  Eval is the spreadsheet semantics of the statement's    *)
(* core language: coercion of operands, the cross-type comparison order,    *)
(* left-to-right error propagation, and the different treatment functions   *)
(* give to direct arguments and to cells they reach through references.     *)
(* Where the reference semantics is not settled by anything this module     *)
(* can state with confidence (irrational powers, number-to-text of long     *)
(* fractions, collation of strings outside a small table, ISBLANK of a      *)
(* computed blank ...) the result is NoV: no verdict.                       *)
(*                                                                         *)
(* TLC enumerates formulas up to depth 2 over a fixed sheet whose cells     *)
(* hold every type, evaluates them here and prints text + expected value;   *)
(* the harness types the text into the real engine and compares.            *)
(***************************************************************************)
EXTENDS Integers, Sequences, FiniteSets, TLC, Json

CONSTANTS Depth2Pool      \* 0: depth 1 only; 1: depth-1 formulas over 3 leaves as operands at depth 2; 2: over 5 leaves

(* ---- values ---------------------------------------------------------------- *)
V(t, n, d, s, b) == [t |-> t, n |-> n, d |-> d, s |-> s, b |-> b]
Num(n, d) == IF d < 0 THEN V("num", 0 - n, 0 - d, "", FALSE) ELSE V("num", n, d, "", FALSE)
IntV(n) == Num(n, 1)
Str(s) == V("str", 0, 1, s, FALSE)
Bool(b) == V("bool", 0, 1, "", b)
Err(e) == V("err", 0, 1, e, FALSE)
Empty == V("empty", 0, 1, "", FALSE)
NoV == V("nov", 0, 1, "", FALSE)
IsErr(v) == v.t = "err"
Bad(v) == v.t \in {"err", "nov"}

(* ---- the sheet: A1..A8 ------------------------------------------------------ *)
Cell == [A1 |-> IntV(2), A2 |-> Str("a"), A3 |-> Bool(TRUE), A4 |-> Empty, A5 |-> Str("12"), A6 |-> Err("#DIV/0!"), A7 |-> Num(-3, 2), A8 |-> Str("TRUE")]
CellNames == <<"A1", "A2", "A3", "A4", "A5", "A6", "A7", "A8">>
RangeCells(r) == CASE r = "A1:A4" -> <<"A1", "A2", "A3", "A4">>
                   [] r = "A2:A5" -> <<"A2", "A3", "A4", "A5">>
                   [] r = "A1:A8" -> <<"A1", "A2", "A3", "A4", "A5", "A6", "A7", "A8">>
                   [] r = "A7:A8" -> <<"A7", "A8">>
                   [] r = "A4:A4" -> <<"A4">>
Ranges == {"A1:A4", "A2:A5", "A1:A8", "A7:A8", "A4:A4"}

(* ---- strings: a small table carries what TLC cannot compute on strings ------- *)
KnownStr == {"", " ", "12", "a", "A", "abc", "B", "TRUE", "FALSE", "true"}
Upper(s) == CASE s = "a" -> "A" [] s = "abc" -> "ABC" [] s = "true" -> "TRUE" [] OTHER -> s
(* collation rank of the upper-cased known strings *)
Rank(s) == CASE s = "" -> 0 [] s = " " -> 1 [] s = "12" -> 2 [] s = "A" -> 3 [] s = "ABC" -> 4 [] s = "B" -> 5 [] s = "FALSE" -> 6 [] s = "TRUE" -> 7
NumOfStr(s) == IF s = "12" THEN IntV(12) ELSE Err("#VALUE!")

(* ---- rationals ----------------------------------------------------------------- *)
Add(a, b) == Num(a.n * b.d + b.n * a.d, a.d * b.d)
Neg(a) == Num(0 - a.n, a.d)
Mul(a, b) == Num(a.n * b.n, a.d * b.d)
DivV(a, b) == IF b.n = 0 THEN Err("#DIV/0!") ELSE Num(a.n * b.d, a.d * b.n)
Less(a, b) == a.n * b.d < b.n * a.d
EqN(a, b) == a.n * b.d = b.n * a.d
AbsI(x) == IF x < 0 THEN 0 - x ELSE x
RECURSIVE IPow(_, _)
IPow(x, k) == IF k = 0 THEN 1 ELSE x * IPow(x, k - 1)
Pow(a, b) ==
  IF b.d # 1 \/ AbsI(b.n) > 3 THEN NoV                     \* irrational or large powers: outside the exact arithmetic of this module
  ELSE IF a.n = 0 /\ b.n = 0 THEN NoV                      \* 0^0: #NUM! in the reference product; not insisted on
  ELSE IF a.n = 0 /\ b.n < 0 THEN Err("#DIV/0!")
  ELSE IF b.n >= 0 THEN Num(IPow(a.n, b.n), IPow(a.d, b.n))
  ELSE Num(IPow(a.d, 0 - b.n), IPow(a.n, 0 - b.n))
(* ROUND half away from zero to k decimals, k in -1..1 *)
RoundV(a, k) ==
  LET scaleN == IF k = 1 THEN 10 ELSE 1
      scaleD == IF k = -1 THEN 10 ELSE 1
      x == Num(a.n * scaleN, a.d * scaleD)                 \* the number in units of 10^-k
      q == (2 * AbsI(x.n) + x.d) \div (2 * x.d)            \* round half up on the absolute value
      r == IF x.n < 0 THEN 0 - q ELSE q IN
  Num(r * scaleD, scaleN)

(* number -> text, for numbers with at most two decimals *)
Digits2(h) == IF h < 10 THEN "0" \o ToString(h) ELSE ToString(h)
NumStr(a) ==
  IF (100 * a.n) % a.d # 0 THEN "?"
  ELSE LET h == (100 * AbsI(a.n)) \div a.d   ip == h \div 100   fp == h % 100
           sign == IF a.n < 0 /\ h # 0 THEN "-" ELSE "" IN
       IF fp = 0 THEN sign \o ToString(ip)
       ELSE IF fp % 10 = 0 THEN sign \o ToString(ip) \o "." \o ToString(fp \div 10)
       ELSE sign \o ToString(ip) \o "." \o Digits2(fp)

(* ---- coercions ------------------------------------------------------------------ *)
ToNum(v) == CASE v.t = "num" -> v [] v.t = "bool" -> IntV(IF v.b THEN 1 ELSE 0) [] v.t = "empty" -> IntV(0)
              [] v.t = "str" -> (IF v.s \in KnownStr THEN NumOfStr(v.s) ELSE NoV) [] OTHER -> v
ToText(v) == CASE v.t = "str" -> v [] v.t = "num" -> (IF NumStr(v) = "?" THEN NoV ELSE Str(NumStr(v)))
               [] v.t = "bool" -> Str(IF v.b THEN "TRUE" ELSE "FALSE") [] v.t = "empty" -> Str("") [] OTHER -> v
ToBool(v) == CASE v.t = "bool" -> v [] v.t = "num" -> Bool(v.n # 0) [] v.t = "empty" -> Bool(FALSE)
               [] v.t = "str" -> (IF v.s \notin KnownStr THEN NoV ELSE IF Upper(v.s) = "TRUE" THEN Bool(TRUE) ELSE IF Upper(v.s) = "FALSE" THEN Bool(FALSE) ELSE Err("#VALUE!"))
               [] OTHER -> v

(* left operand first: its error (or missing verdict) wins *)
Arith(op, x, y) ==
  LET a == ToNum(x)  b == ToNum(y) IN
  IF Bad(a) THEN a ELSE IF Bad(b) THEN b
  ELSE CASE op = "+" -> Add(a, b) [] op = "-" -> Add(a, Neg(b)) [] op = "*" -> Mul(a, b) [] op = "/" -> DivV(a, b) [] op = "^" -> Pow(a, b)
Concat(x, y) ==
  LET a == ToText(x)  b == ToText(y) IN
  IF Bad(a) THEN a ELSE IF Bad(b) THEN b ELSE Str(a.s \o b.s)

TypeRank(v) == CASE v.t = "num" -> 1 [] v.t = "str" -> 2 [] v.t = "bool" -> 3
(* -1, 0, 1, or 2 = no verdict *)
Cmp3(x, y) ==
  LET a == IF x.t = "empty" THEN (CASE y.t = "str" -> Str("") [] y.t = "bool" -> Bool(FALSE) [] OTHER -> IntV(0)) ELSE x
      b == IF y.t = "empty" THEN (CASE a.t = "str" -> Str("") [] a.t = "bool" -> Bool(FALSE) [] OTHER -> IntV(0)) ELSE y IN
  IF TypeRank(a) # TypeRank(b) THEN (IF TypeRank(a) < TypeRank(b) THEN -1 ELSE 1)
  ELSE CASE a.t = "num" -> (IF EqN(a, b) THEN 0 ELSE IF Less(a, b) THEN -1 ELSE 1)
         [] a.t = "bool" -> (IF a.b = b.b THEN 0 ELSE IF b.b THEN -1 ELSE 1)
         [] a.t = "str" -> (IF a.s = b.s THEN 0
                            ELSE IF a.s \in KnownStr /\ b.s \in KnownStr
                              THEN (IF Rank(Upper(a.s)) = Rank(Upper(b.s)) THEN 0 ELSE IF Rank(Upper(a.s)) < Rank(Upper(b.s)) THEN -1 ELSE 1)
                            ELSE 2)
Compare(op, x, y) ==
  IF Bad(x) THEN x ELSE IF Bad(y) THEN y
  ELSE LET c == Cmp3(x, y) IN
       IF c = 2 THEN NoV
       ELSE Bool(CASE op = "=" -> c = 0 [] op = "<>" -> c # 0 [] op = "<" -> c < 0 [] op = "<=" -> c <= 0 [] op = ">" -> c > 0 [] op = ">=" -> c >= 0)

(* ---- formulas -------------------------------------------------------------------- *)
(* a node: [k, op, args, txt]; k in lit / ref / range / un / pct / bin / cmp / fn *)
Node(k, op, args, txt, val) == [k |-> k, op |-> op, args |-> args, txt |-> txt, val |-> val]

(* the cells an argument reaches through a reference, or <<>> if it is a direct value *)
IsRefLike(nd) == nd.k \in {"ref", "range"}
CellsOf(nd) == IF nd.k = "ref" THEN <<nd.op>> ELSE IF nd.k = "range" THEN RangeCells(nd.op) ELSE <<>>

(* numbers a SUM-like function collects from one argument: a sequence of values or one error / NoV *)
RECURSIVE FoldCells(_, _, _)
FoldCells(cs, i, acc) ==           \* numbers of referenced cells; text, booleans and empty cells are skipped, an error stops
  IF i > Len(cs) THEN [ok |-> TRUE, nums |-> acc, bad |-> Empty]
  ELSE LET v == Cell[cs[i]] IN
       IF v.t = "err" THEN [ok |-> FALSE, nums |-> acc, bad |-> v]
       ELSE FoldCells(cs, i + 1, IF v.t = "num" THEN Append(acc, v) ELSE acc)
Collect(nd) ==
  IF IsRefLike(nd) THEN FoldCells(CellsOf(nd), 1, <<>>)
  ELSE LET v == nd.val IN
       IF v.t = "empty" THEN [ok |-> TRUE, nums |-> <<>>, bad |-> Empty]          \* a computed blank adds nothing
       ELSE LET a == ToNum(v) IN IF Bad(a) THEN [ok |-> FALSE, nums |-> <<>>, bad |-> a] ELSE [ok |-> TRUE, nums |-> <<a>>, bad |-> Empty]
RECURSIVE CollectAll(_, _, _)
CollectAll(args, i, acc) ==
  IF i > Len(args) THEN [ok |-> TRUE, nums |-> acc, bad |-> Empty]
  ELSE LET c == Collect(args[i]) IN IF ~c.ok THEN c ELSE CollectAll(args, i + 1, acc \o c.nums)
RECURSIVE SumSeq(_, _)
SumSeq(s, i) == IF i > Len(s) THEN IntV(0) ELSE Add(s[i], SumSeq(s, i + 1))
RECURSIVE MinSeq(_, _, _)
MinSeq(s, i, m) == IF i > Len(s) THEN m ELSE MinSeq(s, i + 1, IF Less(s[i], m) THEN s[i] ELSE m)
RECURSIVE MaxSeq(_, _, _)
MaxSeq(s, i, m) == IF i > Len(s) THEN m ELSE MaxSeq(s, i + 1, IF Less(m, s[i]) THEN s[i] ELSE m)

(* COUNT: numbers; direct booleans and numeric strings count too; errors and other text never *)
CountOne(nd) ==
  IF IsRefLike(nd) THEN Cardinality({i \in 1..Len(CellsOf(nd)) : Cell[CellsOf(nd)[i]].t = "num"})
  ELSE LET v == nd.val IN
       IF v.t = "nov" THEN -1
       ELSE IF v.t \in {"num", "bool"} THEN 1
       ELSE IF v.t = "str" THEN (IF v.s \notin KnownStr THEN -1 ELSE IF NumOfStr(v.s).t = "num" THEN 1 ELSE 0)
       ELSE 0
CountAOne(nd) ==
  IF IsRefLike(nd) THEN Cardinality({i \in 1..Len(CellsOf(nd)) : Cell[CellsOf(nd)[i]].t # "empty"})
  ELSE IF nd.val.t = "nov" THEN -1 ELSE IF nd.val.t = "empty" THEN 0 ELSE 1

(* CONCAT: text of every reached cell, or of the direct value *)
RECURSIVE ConcatCells(_, _, _)
ConcatCells(cs, i, acc) ==
  IF i > Len(cs) THEN acc
  ELSE LET t == ToText(Cell[cs[i]]) IN IF Bad(t) THEN t ELSE ConcatCells(cs, i + 1, Str(acc.s \o t.s))
ConcatArg(nd) == IF IsRefLike(nd) THEN ConcatCells(CellsOf(nd), 1, Str("")) ELSE ToText(nd.val)

(* AND / OR: logical values of the arguments; text and empty cells reached through references are skipped *)
RECURSIVE FoldLog(_, _, _)
FoldLog(cs, i, acc) ==
  IF i > Len(cs) THEN [ok |-> TRUE, vals |-> acc, bad |-> Empty]
  ELSE LET v == Cell[cs[i]] IN
       IF v.t = "err" THEN [ok |-> FALSE, vals |-> acc, bad |-> v]
       ELSE FoldLog(cs, i + 1, IF v.t \in {"num", "bool"} THEN Append(acc, ToBool(v).b) ELSE acc)
Logicals(nd) ==     \* [ok, vals (sequence of booleans), bad]
  IF IsRefLike(nd) THEN FoldLog(CellsOf(nd), 1, <<>>)
  ELSE LET v == nd.val IN
       IF v.t = "empty" THEN [ok |-> TRUE, vals |-> <<>>, bad |-> Empty]
       ELSE LET b == ToBool(v) IN IF Bad(b) THEN [ok |-> FALSE, vals |-> <<>>, bad |-> b] ELSE [ok |-> TRUE, vals |-> <<b.b>>, bad |-> Empty]

ApplyFn(f, args) ==
  LET v(i) == args[i].val IN
  CASE f = "IF" -> LET c == ToBool(v(1)) IN IF Bad(c) THEN c ELSE IF c.b THEN v(2) ELSE v(3)
    [] f = "NOT" -> LET c == ToBool(v(1)) IN IF Bad(c) THEN c ELSE Bool(~c.b)
    [] f \in {"AND", "OR"} ->
         LET l1 == Logicals(args[1])  l2 == Logicals(args[2]) IN
         IF ~l1.ok THEN l1.bad ELSE IF ~l2.ok THEN l2.bad
         ELSE LET all == l1.vals \o l2.vals IN
              IF Len(all) = 0 THEN Err("#VALUE!")
              ELSE IF f = "AND" THEN Bool(\A i \in 1..Len(all) : all[i]) ELSE Bool(\E i \in 1..Len(all) : all[i])
    [] f \in {"SUM", "MIN", "MAX", "AVERAGE"} ->
         LET c == CollectAll(args, 1, <<>>) IN
         IF ~c.ok THEN c.bad
         ELSE (CASE f = "SUM" -> SumSeq(c.nums, 1)
                 [] f = "MIN" -> (IF Len(c.nums) = 0 THEN IntV(0) ELSE MinSeq(c.nums, 2, c.nums[1]))
                 [] f = "MAX" -> (IF Len(c.nums) = 0 THEN IntV(0) ELSE MaxSeq(c.nums, 2, c.nums[1]))
                 [] f = "AVERAGE" -> (IF Len(c.nums) = 0 THEN Err("#DIV/0!") ELSE DivV(SumSeq(c.nums, 1), IntV(Len(c.nums)))))
    [] f = "COUNT" -> LET a == CountOne(args[1])  b == IF Len(args) > 1 THEN CountOne(args[2]) ELSE 0 IN IF a < 0 \/ b < 0 THEN NoV ELSE IntV(a + b)
    [] f = "COUNTA" -> LET a == CountAOne(args[1])  b == IF Len(args) > 1 THEN CountAOne(args[2]) ELSE 0 IN IF a < 0 \/ b < 0 THEN NoV ELSE IntV(a + b)
    [] f = "ABS" -> LET a == ToNum(v(1)) IN IF Bad(a) THEN a ELSE Num(AbsI(a.n), a.d)
    [] f = "ROUND" -> LET a == ToNum(v(1))  k == ToNum(v(2)) IN
                      IF Bad(a) THEN a ELSE IF Bad(k) THEN k ELSE IF k.d # 1 \/ k.n \notin {-1, 0, 1} THEN NoV ELSE RoundV(a, k.n)
    [] f = "LEN" -> LET t == ToText(v(1)) IN IF Bad(t) THEN t ELSE IntV(Len(t.s))
    [] f = "CONCAT" -> LET a == ConcatArg(args[1])  b == ConcatArg(args[2]) IN IF Bad(a) THEN a ELSE IF Bad(b) THEN b ELSE Str(a.s \o b.s)
    [] f = "ISNUMBER" -> IF v(1).t = "nov" THEN NoV ELSE Bool(v(1).t = "num")
    [] f = "ISTEXT" -> IF v(1).t = "nov" THEN NoV ELSE Bool(v(1).t = "str")
    [] f = "ISBLANK" -> IF args[1].k = "ref" THEN Bool(v(1).t = "empty") ELSE IF v(1).t \in {"empty", "nov"} THEN NoV ELSE Bool(FALSE)
    [] f = "IFERROR" -> IF v(1).t = "nov" THEN NoV ELSE IF v(1).t = "err" THEN v(2) ELSE v(1)
    [] OTHER -> Assert(FALSE, <<"unknown function", f>>)

(* value of a range used where a single value is expected: not in the core language *)
RangeAsValue == NoV

(* ---- building formulas with their values --------------------------------------- *)
Lit(txt, val) == Node("lit", "", <<>>, txt, val)
Ref(c) == Node("ref", c, <<>>, c, Cell[c])
Rng(r) == Node("range", r, <<>>, r, RangeAsValue)
Par(nd) == IF nd.k \in {"lit", "ref", "range", "fn"} THEN nd.txt ELSE "(" \o nd.txt \o ")"
Un(x) == Node("un", "-", <<x>>, "-" \o Par(x), LET a == ToNum(x.val) IN IF Bad(a) THEN a ELSE Neg(a))
Pct(x) == Node("pct", "%", <<x>>, Par(x) \o "%", LET a == ToNum(x.val) IN IF Bad(a) THEN a ELSE Num(a.n, a.d * 100))
Bin(op, x, y) == Node("bin", op, <<x, y>>, Par(x) \o op \o Par(y), IF op = "&" THEN Concat(x.val, y.val) ELSE Arith(op, x.val, y.val))
CmpN(op, x, y) == Node("cmp", op, <<x, y>>, Par(x) \o op \o Par(y), Compare(op, x.val, y.val))
RECURSIVE ArgText(_, _)
ArgText(args, i) == IF i > Len(args) THEN "" ELSE args[i].txt \o (IF i < Len(args) THEN "," ELSE "") \o ArgText(args, i + 1)
Fn(f, args) == Node("fn", f, args, f \o "(" \o ArgText(args, 1) \o ")", ApplyFn(f, args))

Literals == {Lit("0", IntV(0)), Lit("1", IntV(1)), Lit("2", IntV(2)), Lit("0.5", Num(1, 2)), Lit("10", IntV(10)), Lit("3", IntV(3)),
             Lit("\"a\"", Str("a")), Lit("\"12\"", Str("12")), Lit("\"\"", Str("")), Lit("\"B\"", Str("B")), Lit("\"true\"", Str("true")),
             Lit("TRUE", Bool(TRUE)), Lit("FALSE", Bool(FALSE)), Lit("#N/A", Err("#N/A"))}
Refs == {Ref(CellNames[i]) : i \in 1..8}
Leaves == Literals \cup Refs
RangeNodes == {Rng(r) : r \in Ranges}

ArithOps == {"+", "-", "*", "/", "^", "&"}
CmpOps == {"=", "<>", "<", "<=", ">", ">="}
Fn1 == {"NOT", "ABS", "LEN", "ISNUMBER", "ISTEXT", "ISBLANK"}
Agg == {"SUM", "MIN", "MAX", "AVERAGE", "COUNT", "COUNTA"}

Over(A, B) ==
  {Un(x) : x \in A} \cup {Pct(x) : x \in A}
  \cup {Bin(op, x, y) : op \in ArithOps, x \in A, y \in B} \cup {CmpN(op, x, y) : op \in CmpOps, x \in A, y \in B}
  \cup {Fn(f, <<x>>) : f \in Fn1, x \in A}
  \cup {Fn(f, <<x, y>>) : f \in {"AND", "OR", "CONCAT", "IFERROR"}, x \in A, y \in B}
  \cup {Fn("ROUND", <<x, k>>) : x \in A, k \in {Lit("0", IntV(0)), Lit("1", IntV(1)), Un(Lit("1", IntV(1)))}}
  \cup {Fn("IF", <<c, x, y>>) : c \in A, x \in {Lit("1", IntV(1)), Ref("A4"), Lit("\"a\"", Str("a"))}, y \in B}
  \cup {Fn(f, <<x>>) : f \in Agg, x \in A \cup RangeNodes}
  \cup {Fn(f, <<x, y>>) : f \in Agg, x \in RangeNodes, y \in B}
  \cup {Fn(f, <<r, y>>) : f \in {"AND", "OR", "CONCAT"}, r \in RangeNodes, y \in B}

Depth1 == Over(Leaves, Leaves)
(* depth 2: a spread of depth-1 formulas (and the leaves) as operands of every construct *)
PoolLeaves == IF Depth2Pool = 1 THEN {Lit("2", IntV(2)), Lit("\"a\"", Str("a")), Ref("A4")}
              ELSE {Lit("2", IntV(2)), Lit("\"a\"", Str("a")), Ref("A4"), Ref("A6"), Ref("A3")}
Pool == IF Depth2Pool = 0 THEN {} ELSE Over(PoolLeaves, PoolLeaves)
SmallLeaves == {Lit("1", IntV(1)), Lit("\"a\"", Str("a")), Ref("A4"), Ref("A6"), Lit("TRUE", Bool(TRUE))}
Depth2 == IF Depth2Pool = 0 THEN {} ELSE Over(Pool, SmallLeaves) \cup Over(SmallLeaves, Pool)
Formulas == Leaves \cup Depth1 \cup Depth2

(* the value a formula cell shows: an empty result shows as 0 *)
Final(v) == IF v.t = "empty" THEN IntV(0) ELSE v

VARIABLE f
VInit == f \in Formulas
VSpec == VInit /\ [][UNCHANGED f]_f

(* sanity of the evaluator itself *)
TypeOK == Final(f.val).t \in {"num", "str", "bool", "err", "nov"} /\ (Final(f.val).t = "num" => Final(f.val).d > 0)
Emit == PrintT(<<"CASE", ToJson([txt |-> f.txt, val |-> Final(f.val), k |-> f.k, op |-> f.op, a |-> [i \in 1..Len(f.args) |-> f.args[i].txt]])>>)
=============================================================================
