---------------------------- MODULE NumberFormat ----------------------------
(***************************************************************************)
(* C20 - number formats display correctly rounded values.                   *)
(*                                                                         *)
(* Numbers are exact decimals: sign, digit string, power of ten.  A format *)
(* of the stated family (digit placeholders 0, grouping, decimal point,     *)
(* percent, scientific exponent, literal text, optional negative section)   *)
(* is applied on the digit string: scale (percent), round half away from    *)
(* zero at the format's last decimal place with carry, pad, group, place    *)
(* sign and literals.  No floating point anywhere.                          *)
(***************************************************************************)
EXTENDS Integers, Sequences, FiniteSets, TLC, Json

CONSTANTS MantDigits,   \* digits used to build mantissas
          MaxMant,      \* maximal mantissa length
          NegK, MaxK    \* the power of ten ranges over -NegK..MaxK

DigitChar == <<"0", "1", "2", "3", "4", "5", "6", "7", "8", "9">>
Ch(d) == DigitChar[d + 1]
Zeros(n) == [i \in 1..n |-> 0]
RECURSIVE StripLead(_)
StripLead(ds) == IF ds # <<>> /\ ds[1] = 0 THEN StripLead(Tail(ds)) ELSE ds
AllZero(ds) == \A i \in 1..Len(ds) : ds[i] = 0

(* digit-string increment with carry; result may be one digit longer *)
RECURSIVE Inc(_)
Inc(ds) == IF ds = <<>> THEN <<1>>
           ELSE IF ds[Len(ds)] < 9 THEN [ds EXCEPT ![Len(ds)] = @ + 1]
           ELSE Append(Inc(SubSeq(ds, 1, Len(ds) - 1)), 0)

(* value = int(ds) * 10^k  ->  <<integer digits, fraction digits>> *)
Split(ds, k) ==
  IF k >= 0 THEN <<ds \o Zeros(k), <<>>>>
  ELSE IF Len(ds) > -k THEN <<SubSeq(ds, 1, Len(ds) + k), SubSeq(ds, Len(ds) + k + 1, Len(ds))>>
  ELSE <<<<>>, Zeros((-k) - Len(ds)) \o ds>>

(* round half away from zero (on the magnitude) to p decimals *)
RoundAt(int, frac, p) ==
  IF Len(frac) <= p THEN <<int, frac \o Zeros(p - Len(frac))>>
  ELSE LET keep == SubSeq(frac, 1, p)
           up == frac[p + 1] >= 5
           all == int \o keep
           r == IF up THEN Inc(all) ELSE all
           li == Len(r) - p IN
       <<SubSeq(r, 1, li), SubSeq(r, li + 1, Len(r))>>

RECURSIVE Grouped(_, _)
Grouped(cs, sep) ==      \* cs: characters of the integer part
  IF Len(cs) <= 3 THEN cs ELSE Grouped(SubSeq(cs, 1, Len(cs) - 3), sep) \o <<sep>> \o SubSeq(cs, Len(cs) - 2, Len(cs))
Chars(ds) == [i \in 1..Len(ds) |-> Ch(ds[i])]

(* ---- formats ------------------------------------------------------------- *)
(* [kind: fixed|sci, minInt, group, dec, pct, pre, suf, paren]  *)
IntCode(f) == IF f.group THEN <<"#", ",", "#", "#", "0">> ELSE [i \in 1..f.minInt |-> "0"]
Body(f) == IF f.kind = "sci" THEN <<"0">> \o (IF f.dec > 0 THEN <<".">> \o [i \in 1..f.dec |-> "0"] ELSE <<>>) \o <<"E", "+", "0", "0">>
           ELSE IntCode(f) \o (IF f.dec > 0 THEN <<".">> \o [i \in 1..f.dec |-> "0"] ELSE <<>>) \o (IF f.pct THEN <<"%">> ELSE <<>>)
Quoted(s) == IF s = <<>> THEN <<>> ELSE <<"\"">> \o s \o <<"\"">>
Section(f) == Quoted(f.pre) \o Body(f) \o Quoted(f.suf)
Code(f) == IF f.paren THEN Section(f) \o <<";", "(">> \o Section(f) \o <<")">> ELSE Section(f)

FixedText(ds, k, f, D, G) ==
  LET sp == Split(ds, IF f.pct THEN k + 2 ELSE k)
      rr == RoundAt(sp[1], sp[2], f.dec)
      int0 == StripLead(rr[1])
      int1 == IF Len(int0) < f.minInt THEN Zeros(f.minInt - Len(int0)) \o int0 ELSE int0
      ic == IF f.group THEN Grouped(Chars(int1), G) ELSE Chars(int1)
  IN [text |-> ic \o (IF f.dec > 0 THEN <<D>> \o Chars(rr[2]) ELSE <<>>) \o (IF f.pct THEN <<"%">> ELSE <<>>),
      zero |-> AllZero(rr[1]) /\ AllZero(rr[2])]

TwoDigits(n) == IF n < 10 THEN <<"0", Ch(n)>> ELSE IF n < 100 THEN <<Ch(n \div 10), Ch(n % 10)>> ELSE <<Ch(n \div 100), Ch((n \div 10) % 10), Ch(n % 10)>>
SciText(ds, k, D, dec) ==
  LET m == StripLead(ds)
      frac(x) == IF dec > 0 THEN <<D>> \o Chars(x) ELSE <<>> IN
  IF m = <<>> THEN [text |-> <<"0">> \o frac(Zeros(dec)) \o <<"E", "+", "0", "0">>, zero |-> TRUE]
  ELSE LET rr == RoundAt(<<m[1]>>, Tail(m), dec)
           carry == Len(rr[1]) = 2
           e == Len(m) - 1 + k + (IF carry THEN 1 ELSE 0)
           lead == IF carry THEN <<1>> ELSE rr[1]
           fr == IF carry THEN Zeros(dec) ELSE rr[2]
       IN [text |-> Chars(lead) \o frac(fr) \o <<"E", IF e < 0 THEN "-" ELSE "+">> \o TwoDigits(IF e < 0 THEN -e ELSE e), zero |-> FALSE]

(* the formatted text, or no verdict where the statement leaves the display open *)
Format(neg, ds, k, f, D, G) ==
  LET b == IF f.kind = "sci" THEN SciText(ds, k, D, f.dec) ELSE FixedText(ds, k, f, D, G)
      isneg == neg /\ ~AllZero(ds) IN
  IF isneg /\ b.zero THEN [v |-> "nov", why |-> "negative-rounds-to-zero"]
  ELSE IF isneg /\ ~f.paren /\ f.pre # <<>> THEN [v |-> "nov", why |-> "minus-sign-and-literal-prefix"]
  ELSE [v |-> "text",
        text |-> IF isneg /\ f.paren THEN <<"(">> \o f.pre \o b.text \o f.suf \o <<")">>
                 ELSE (IF isneg THEN <<"-">> ELSE <<>>) \o f.pre \o b.text \o f.suf]

(* ---- enumeration ---------------------------------------------------------- *)
Fx(minInt, group, dec, pct, pre, suf, paren) == [kind |-> "fixed", minInt |-> minInt, group |-> group, dec |-> dec, pct |-> pct, pre |-> pre, suf |-> suf, paren |-> paren]
Formats ==
  { Fx(mi, FALSE, d, p, <<>>, <<>>, FALSE) : mi \in {1, 2}, d \in 0..3, p \in BOOLEAN } \cup
  { Fx(1, TRUE, d, p, <<>>, <<>>, FALSE) : d \in 0..3, p \in BOOLEAN } \cup
  { Fx(1, g, d, FALSE, <<"x">>, <<>>, FALSE) : g \in BOOLEAN, d \in {0, 2} } \cup
  { Fx(1, g, d, FALSE, <<>>, <<" ", "k", "g">>, FALSE) : g \in BOOLEAN, d \in {0, 1} } \cup
  { Fx(1, g, d, FALSE, <<>>, <<>>, TRUE) : g \in BOOLEAN, d \in {0, 2} } \cup
  { [kind |-> "sci", minInt |-> 1, group |-> FALSE, dec |-> d, pct |-> FALSE, pre |-> <<>>, suf |-> <<>>, paren |-> FALSE] : d \in 0..2 }

RECURSIVE Mants(_)
Mants(n) == IF n = 1 THEN {<<d>> : d \in MantDigits \ {0}}
            ELSE LET P == Mants(n - 1) IN P \cup {Append(p, d) : p \in {q \in P : Len(q) = n - 1}, d \in MantDigits}
MinK == 0 - NegK
Numbers == {[neg |-> ng, ds |-> m, k |-> k] : ng \in BOOLEAN, m \in Mants(MaxMant), k \in MinK..MaxK} \cup {[neg |-> FALSE, ds |-> <<0>>, k |-> 0]}
Locales == {[name |-> "en", D |-> ".", G |-> ","], [name |-> "de", D |-> ",", G |-> "."]}

VARIABLE c
FInit == c \in [n : Numbers, f : Formats, loc : Locales]
FSpec == FInit /\ [][UNCHANGED c]_c

(* design-level checks of the oracle: rounding never changes the value by more than half a unit
   of the last place (checked through digit arithmetic: re-rounding is idempotent), and the text
   of a positive number never starts with a separator *)
Idempotent ==
  LET sp == Split(c.n.ds, c.n.k)  r1 == RoundAt(sp[1], sp[2], c.f.dec)  r2 == RoundAt(r1[1], r1[2], c.f.dec) IN r1 = r2
WellShaped ==
  LET r == Format(c.n.neg, c.n.ds, c.n.k, c.f, c.loc.D, c.loc.G) IN
  r.v = "text" => (r.text # <<>> /\ r.text[1] \notin {c.loc.G})

RECURSIVE NumText(_, _, _)
NumText(neg, ds, k) == (IF neg THEN <<"-">> ELSE <<>>) \o Chars(ds) \o <<"e">> \o (IF k < 0 THEN <<"-">> \o Chars(<<-k>>) ELSE Chars(<<k>>))
Emit == PrintT(<<"CASE", ToJson([num |-> NumText(c.n.neg, c.n.ds, c.n.k), code |-> Code(c.f), locale |-> c.loc.name, dec |-> c.f.dec,
                                  kind |-> c.f.kind, r |-> Format(c.n.neg, c.n.ds, c.n.k, c.f, c.loc.D, c.loc.G)])>>)
=============================================================================
