SPECIFICATION RSpec
CONSTANTS
  MaxLen = 3
  Alphabet <- MCAlphabet
  VocabSize = 1
  Vals = {1}
INVARIANT Emit
PROPERTY Stutter
CHECK_DEADLOCK FALSE
