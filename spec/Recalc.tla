------------------------------- MODULE Recalc -------------------------------
(***************************************************************************)
(* C05 / C07 / C31 - what a workbook computes is a function of its cells.   *)
(*                                                                         *)
(* A small workbook: a column A1..AN and B1, C1 on Sheet1, one cell on      *)
(* Sheet2.                                                                  *)
(* A cell holds nothing, a number, or a formula: a reference, a sum of two  *)
(* references, SUM over the whole column, IF(c>0, a, b) (lazy), or the      *)
(* dynamic array SEQUENCE(c) whose height is the value of another cell.     *)
(* Val is the value the statement demands:                                  *)
(*   - a formula's value is its formula over the values of what it reads;   *)
(*   - a formula whose evaluation reaches itself is #CIRC!, and so is one   *)
(*     that reads a cell showing it (C05);                                  *)
(*   - SEQUENCE(n) fills exactly n cells downward, or shows #SPILL! and      *)
(*     fills nothing when user content is in the way (C31);                  *)
(*   - nothing else about the past matters: Val reads the contents only,    *)
(*     so any order of entering them, any number of evaluations and any     *)
(*     reload give the same values (C07).                                   *)
(* Behaviours are editing histories (SetCell); the harness replays them on  *)
(* the engine and compares every cell after every step, then rebuilds the   *)
(* final workbook in other orders.  Situations whose meaning this module    *)
(* does not fix (two spills competing for a cell, a spill height that       *)
(* depends on its own spill) are marked NOV: no verdict.                    *)
(***************************************************************************)
EXTENDS Integers, Sequences, FiniteSets, TLC, Json

CONSTANTS N,          \* cells A1..AN of Sheet1; cell N+1 is Sheet2!A1
          MaxSteps

Cells == 1..(N + 3)
Col == 1..N
X == N + 1           \* Sheet2!A1
RowB == N + 2        \* Sheet1!B1 and C1: where a horizontal array at A1 spills
RowC == N + 3
RowCells == {RowB, RowC}
ColIdx(c) == c - N   \* B1 -> 2, C1 -> 3

(* ---- contents ------------------------------------------------------------- *)
C(k, a, b, c, v) == [k |-> k, a |-> a, b |-> b, c |-> c, v |-> v]
EmptyC == C("empty", 0, 0, 0, 0)
NumC(v) == C("num", 0, 0, 0, v)
RefC(a) == C("ref", a, 0, 0, 0)
AddC(a, b) == C("add", a, b, 0, 0)
SumC == C("sum", 0, 0, 0, 0)
IfC(c, a, b) == C("if", a, b, c, 0)
SeqC(a) == C("seq", a, 0, 0, 0)
SeqHC(a) == C("seqh", a, 0, 0, 0)
CountC == C("count", 0, 0, 0, 0)          \* COUNT over the whole column: counts numbers, ignores errors         \* SEQUENCE(1, a): spills to the right

(* ---- values --------------------------------------------------------------- *)
NumV(n) == [t |-> "n", n |-> n, e |-> ""]
ErrV(e) == [t |-> "e", n |-> 0, e |-> e]      \* "CIRC", "SPILL", "ERR" (some other error), "NOV" (no verdict)
EmptyV == [t |-> "empty", n |-> 0, e |-> ""]
IsE(v) == v.t = "e"
AsNum(v) == IF v.t = "empty" THEN NumV(0) ELSE v
(* of two bad values the missing verdict wins, otherwise the left one *)
Worse(a, b) == IF IsE(a) /\ a.e = "NOV" THEN a ELSE IF IsE(b) /\ b.e = "NOV" THEN b ELSE IF IsE(a) THEN a ELSE b

VARIABLES content, trail, steps
vars == <<content, trail, steps>>

(* ---- static reads (used by the value function for COUNT, and by the invariants) ------------ *)
Reads(ct, c) == LET x == ct[c] IN CASE x.k = "ref" -> {x.a} [] x.k = "add" -> {x.a, x.b} [] x.k \in {"sum", "count"} -> Col [] x.k = "if" -> {x.a, x.b, x.c}
                                     [] x.k = "seq" -> {x.a} [] x.k = "seqh" -> {x.a} [] OTHER -> {}
RECURSIVE Reach(_, _, _)
Reach(ct, S, k) == IF k = 0 THEN S ELSE Reach(ct, S \cup UNION {Reads(ct, c) : c \in S}, k - 1)
OnCycle(ct, c) == c \in Reach(ct, Reads(ct, c), N + 3)

(* ---- the value function ----------------------------------------------------- *)
RECURSIVE Val(_, _, _), Height(_, _, _), SpillAt(_, _, _), SumFrom(_, _, _, _), Width(_, _), RowSpillAt(_, _, _)

(* the value cell c shows, given the cells whose evaluation is in progress *)
Val(ct, c, st) ==
  IF c \in st THEN ErrV("CIRC")
  ELSE LET x == ct[c]  st2 == st \cup {c} IN
    CASE x.k = "empty" -> IF c \in Col THEN SpillAt(ct, c, st) ELSE IF c \in RowCells THEN RowSpillAt(ct, c, st) ELSE EmptyV
      [] x.k = "num" -> NumV(x.v)
      [] x.k = "ref" -> AsNum(Val(ct, x.a, st2))
      [] x.k = "add" -> LET l == AsNum(Val(ct, x.a, st2))  r == AsNum(Val(ct, x.b, st2)) IN
                        IF IsE(l) \/ IsE(r) THEN Worse(l, r) ELSE NumV(l.n + r.n)
      [] x.k = "sum" -> SumFrom(ct, 1, st2, NumV(0))
      \* COUNT ignores the errors it meets, but a formula whose evaluation depends on its own value is #CIRC!
      \* whatever its function does with errors (the statement); the cycle is read off the static reads
      [] x.k = "count" -> IF OnCycle(ct, c) THEN ErrV("CIRC")
                          ELSE LET vs == [i \in Col |-> Val(ct, i, st2)] IN
                               IF \E i \in Col : IsE(vs[i]) /\ vs[i].e = "NOV" THEN ErrV("NOV")
                               ELSE NumV(Cardinality({i \in Col : vs[i].t = "n"}))
      [] x.k = "if" -> LET cnd == AsNum(Val(ct, x.c, st2)) IN
                       IF IsE(cnd) THEN cnd ELSE IF cnd.n > 0 THEN AsNum(Val(ct, x.a, st2)) ELSE AsNum(Val(ct, x.b, st2))
      [] x.k = "seq" -> LET h == Height(ct, c, st2) IN IF IsE(h) THEN h ELSE NumV(1)
      [] x.k = "seqh" -> LET w == Width(ct, st2) IN IF IsE(w) THEN w ELSE NumV(1)

(* SUM(A1:AN): errors propagate (first in order), empty cells add nothing *)
SumFrom(ct, i, st, acc) ==
  IF i > N THEN acc
  ELSE LET v == AsNum(Val(ct, i, st)) IN
       IF IsE(v) THEN (IF IsE(acc) THEN Worse(acc, v) ELSE SumFrom(ct, i + 1, st, v))
       ELSE IF IsE(acc) THEN SumFrom(ct, i + 1, st, acc) ELSE SumFrom(ct, i + 1, st, NumV(acc.n + v.n))

(* the number of rows the SEQUENCE at anchor a fills, or the error it shows *)
Height(ct, a, st) ==
  LET n == AsNum(Val(ct, ct[a].a, st)) IN
  IF IsE(n) THEN (IF n.e = "CIRC" /\ ct[a].a \in Col /\ ct[a].a > a THEN ErrV("NOV") ELSE n)   \* a height that depends on its own spill: not fixed here
  ELSE IF n.n <= 0 THEN ErrV("ERR")
  ELSE IF a \in Col /\ \E j \in 1..(n.n - 1) : a + j <= N /\ ct[a + j].k # "empty" THEN ErrV("SPILL")
  ELSE NumV(n.n)

(* the number of columns SEQUENCE(1, n) at A1 fills, or the error it shows *)
Width(ct, st) ==
  LET n == AsNum(Val(ct, ct[1].a, st)) IN
  IF IsE(n) THEN (IF n.e = "CIRC" /\ ct[1].a \in RowCells THEN ErrV("NOV") ELSE n)
  ELSE IF n.n <= 0 THEN ErrV("ERR")
  ELSE IF \E j \in 2..n.n : j <= 3 /\ ct[N + j].k # "empty" THEN ErrV("SPILL")
  ELSE NumV(n.n)
RowSpillAt(ct, c, st) ==
  IF ct[1].k # "seqh" THEN EmptyV
  ELSE LET w == Width(ct, st \cup {c}) IN
       IF IsE(w) THEN (IF w.e \in {"NOV", "CIRC"} THEN ErrV("NOV") ELSE EmptyV)
       ELSE IF w.n >= ColIdx(c) THEN NumV(ColIdx(c)) ELSE EmptyV

(* an empty cell of the column: the element of the one spill that covers it, or nothing *)
SpillAt(ct, c, st) ==
  LET anchors == {a \in 1..(c - 1) : ct[a].k = "seq"}
      \* c counts as "in progress" while the heights are computed: a height that reads c would decide its own size
      hs == [a \in anchors |-> Height(ct, a, st \cup {c})]
      covering == {a \in anchors : hs[a].t = "n" /\ a + hs[a].n - 1 >= c}
      unknown == {a \in anchors : IsE(hs[a]) /\ hs[a].e \in {"NOV", "CIRC"}} IN
  IF unknown # {} THEN ErrV("NOV")
  ELSE IF covering = {} THEN EmptyV
  ELSE IF Cardinality(covering) > 1 THEN ErrV("NOV")
  ELSE LET a == CHOOSE a \in covering : TRUE IN NumV(c - a + 1)

(* two spills that would claim the same cell: which one wins is not fixed here *)
Competing(ct) ==
  \E a, b \in Col : a < b /\ ct[a].k = "seq" /\ ct[b].k = "seq" /\
     LET ha == Height(ct, a, {})  hb == Height(ct, b, {}) IN ha.t = "n" /\ a + ha.n - 1 >= b

Shown(ct) == IF Competing(ct) THEN [c \in Cells |-> ErrV("NOV")] ELSE [c \in Cells |-> Val(ct, c, {})]
(* which cells belong to a spill: 0 = no, otherwise the anchor *)
SpillOwner(ct) ==
  [c \in Cells |-> IF c \in RowCells
                     THEN (IF ct[c].k = "empty" /\ ct[1].k = "seqh" /\ Width(ct, {}).t = "n" /\ Width(ct, {}).n >= ColIdx(c) THEN 1 ELSE 0)
                   ELSE IF c \notin Col \/ ct[c].k # "empty" THEN 0
                   ELSE LET cov == {a \in 1..(c - 1) : ct[a].k = "seq" /\ Height(ct, a, {}).t = "n" /\ a + Height(ct, a, {}).n - 1 >= c} IN
                        IF Cardinality(cov) = 1 THEN CHOOSE a \in cov : TRUE ELSE 0]

(* ---- editing histories --------------------------------------------------------- *)
Targets == Cells
Menu(c) ==
  IF c \in RowCells THEN {EmptyC, NumC(2), RefC(1), RefC(X)} ELSE
  {EmptyC, NumC(0), NumC(2), NumC(3)} \cup {RefC(a) : a \in Cells} \cup {AddC(a, b) : a \in {1, 2}, b \in {3, X}}
  \cup {SumC, CountC} \cup {IfC(X, 1, 2), IfC(1, c, 3), IfC(2, 3, c)} \cup {SeqC(a) : a \in {1, X}} \cup (IF c = 1 THEN {SeqC(2), SeqHC(X), SeqHC(2)} ELSE {})

RInit == content = [c \in Cells |-> EmptyC] /\ trail = <<>> /\ steps = 0
SetCell(c, x) ==
  /\ steps < MaxSteps /\ content[c] # x
  /\ content' = [content EXCEPT ![c] = x]
  /\ steps' = steps + 1
  /\ trail' = Append(trail, [c |-> c, x |-> x, shown |-> Shown(content'), owner |-> SpillOwner(content')])
RNext == \E c \in Targets : \E x \in Menu(c) : SetCell(c, x)
RSpec == RInit /\ [][RNext]_vars

(* ---- the statement on the design ------------------------------------------------- *)
(* C05: a formula shows #CIRC! only if it is on a cycle or reads a cell that shows it *)
OnCycleOrReadsOne(ct, c) == \E d \in Reach(ct, {c}, N + 3) : d \in Reach(ct, Reads(ct, d), N + 3)
CircOnlyOnCycles == \A c \in Cells : LET v == Shown(content)[c] IN (IsE(v) /\ v.e = "CIRC") => OnCycleOrReadsOne(content, c)
(* C31: a spilled value sits only where its formula's current result puts it, never on user content *)
SpillsExact == \A c \in Cells : SpillOwner(content)[c] # 0 => (content[c].k = "empty" /\ Shown(content)[c].t \in {"n", "e"})

Emit == (steps = MaxSteps) => PrintT(<<"BEHAVIOUR", ToJson(trail)>>)
=============================================================================
