---------------------------- MODULE Selection ----------------------------
(***************************************************************************)
(* C28 - the selection always points at an existing sheet and cell.        *)
(*                                                                         *)
(* Reference model of the per-user view state of the IronCalc user model:  *)
(* which sheet is selected, and per sheet the active cell and the selected *)
(* range.  One action per public call that can move the selection or       *)
(* change the set of sheets.  The invariant SelOK is the property.         *)
(***************************************************************************)
EXTENDS Integers, Sequences, FiniteSets, TLC

CONSTANTS LastRow, LastCol, MaxSheets,
          Cells,      \* set of <<row, col>> used as navigation targets
          OffGrid     \* set of <<row, col>> outside the grid (rejected targets)

VARIABLES sheets,  \* sequence of [id, hidden, row, col, range]   range = <<r1, c1, r2, c2>>
          sel,     \* index (1-based) of the selected sheet
          nextId,  \* ids for new sheets
          undoS, redoS \* snapshots of `sheets` (order/visibility) for undo/redo of sheet operations

svars == <<sheets, sel, nextId, undoS, redoS>>

InGrid(r, c) == r \in 1..LastRow /\ c \in 1..LastCol
NewView(id) == [id |-> id, hidden |-> FALSE, row |-> 1, col |-> 1, range |-> <<1, 1, 1, 1>>]

Min(a, b) == IF a <= b THEN a ELSE b
Max(a, b) == IF a >= b THEN a ELSE b
(* A range is given by two corners in either order. *)
ViewOK(v) ==
  /\ InGrid(v.row, v.col)
  /\ InGrid(v.range[1], v.range[2]) /\ InGrid(v.range[3], v.range[4])
  /\ Min(v.range[1], v.range[3]) <= v.row /\ v.row <= Max(v.range[1], v.range[3])
  /\ Min(v.range[2], v.range[4]) <= v.col /\ v.col <= Max(v.range[2], v.range[4])

(* The property. *)
SelOK ==
  /\ sel \in 1..Len(sheets)
  /\ ViewOK(sheets[sel])

SInit ==
  /\ sheets = <<NewView(1)>> /\ sel = 1 /\ nextId = 2
  /\ undoS = <<>> /\ redoS = <<>>

Remove(s, i) == SubSeq(s, 1, i - 1) \o SubSeq(s, i + 1, Len(s))
Insert(s, i, x) == SubSeq(s, 1, i - 1) \o <<x>> \o SubSeq(s, i, Len(s))   \* x ends at index i
Visible(s) == {i \in 1..Len(s) : ~s[i].hidden}
IndexOfId(s, id) == CHOOSE i \in 1..Len(s) : s[i].id = id

(* what a sheet operation records: identity, order and visibility of the sheets *)
Snap(s) == [i \in 1..Len(s) |-> [id |-> s[i].id, hidden |-> s[i].hidden]]
Record == undoS' = Append(undoS, Snap(sheets)) /\ redoS' = <<>>
NoRecord == UNCHANGED <<undoS, redoS>>

SetSheet(i) ==
  /\ i \in 1..Len(sheets)
  /\ sel' = i /\ UNCHANGED <<sheets, nextId>> /\ NoRecord

SetCell(r, c) ==
  /\ InGrid(r, c)
  /\ sheets' = [sheets EXCEPT ![sel] = [@ EXCEPT !.row = r, !.col = c, !.range = <<r, c, r, c>>]]
  /\ UNCHANGED <<sel, nextId>> /\ NoRecord

(* set_selected_range: the active cell must stay a corner of the range *)
SetRange(r1, c1, r2, c2) ==
  /\ InGrid(r1, c1) /\ InGrid(r2, c2) /\ r1 <= r2 /\ c1 <= c2
  /\ sheets[sel].row \in {r1, r2} /\ sheets[sel].col \in {c1, c2}
  /\ sheets' = [sheets EXCEPT ![sel] = [@ EXCEPT !.range = <<r1, c1, r2, c2>>]]
  /\ UNCHANGED <<sel, nextId>> /\ NoRecord

(* a rejected navigation target changes nothing *)
RejectTarget(r, c) == ~InGrid(r, c) /\ UNCHANGED svars

(* Keyboard navigation: one step; at the edge of the grid nothing changes. *)
Arrow(dr, dc) ==
  LET v == sheets[sel]
      r == v.row + dr
      c == v.col + dc IN
  /\ IF InGrid(r, c)
       THEN sheets' = [sheets EXCEPT ![sel] = [@ EXCEPT !.row = r, !.col = c, !.range = <<r, c, r, c>>]]
       ELSE sheets' = sheets
  /\ UNCHANGED <<sel, nextId>> /\ NoRecord

NewSheet ==
  /\ Len(sheets) < MaxSheets
  /\ sheets' = Append(sheets, NewView(nextId)) /\ nextId' = nextId + 1
  /\ sel' = Len(sheets) + 1
  /\ Record

DuplicateSheet(i) ==
  /\ i \in 1..Len(sheets) /\ Len(sheets) < MaxSheets
  /\ sheets' = Insert(sheets, i + 1, [sheets[i] EXCEPT !.id = nextId, !.hidden = FALSE]) /\ nextId' = nextId + 1
  /\ sel' = i + 1
  /\ Record

(* Deleting or hiding a sheet: the property only asks that the selection    *)
(* ends on an existing sheet; which one is left open.                      *)
DeleteSheet(i) ==
  /\ i \in 1..Len(sheets) /\ Len(sheets) > 1
  /\ sheets' = Remove(sheets, i)
  /\ sel' \in 1..(Len(sheets) - 1)
  /\ UNCHANGED nextId /\ Record

HideSheet(i) ==
  /\ i \in 1..Len(sheets)
  /\ sheets' = [sheets EXCEPT ![i] = [@ EXCEPT !.hidden = TRUE]]
  /\ sel' \in 1..Len(sheets)
  /\ UNCHANGED nextId /\ Record

MoveSheet(i, j) ==
  /\ i \in 1..Len(sheets) /\ j \in 1..Len(sheets) /\ i # j
  /\ sheets' = Insert(Remove(sheets, i), j, sheets[i])
  /\ sel' = IndexOfId(sheets', sheets[sel].id)
  /\ UNCHANGED nextId /\ Record

(* Undo / redo of sheet operations restore the set and order of sheets;    *)
(* the selection must end on an existing sheet (which one is left open).   *)
ViewOf(id, hidden) ==
  IF \E j \in 1..Len(sheets) : sheets[j].id = id
    THEN [sheets[CHOOSE j \in 1..Len(sheets) : sheets[j].id = id] EXCEPT !.hidden = hidden]
    ELSE [NewView(id) EXCEPT !.hidden = hidden]
Restore(snap) ==
  /\ sheets' = [i \in 1..Len(snap) |-> ViewOf(snap[i].id, snap[i].hidden)]
  /\ sel' \in 1..Len(snap)
  /\ UNCHANGED nextId

UndoSheetOp ==
  /\ undoS # <<>>
  /\ Restore(undoS[Len(undoS)])
  /\ undoS' = SubSeq(undoS, 1, Len(undoS) - 1)
  /\ redoS' = Append(redoS, Snap(sheets))

RedoSheetOp ==
  /\ redoS # <<>>
  /\ Restore(redoS[Len(redoS)])
  /\ redoS' = SubSeq(redoS, 1, Len(redoS) - 1)
  /\ undoS' = Append(undoS, Snap(sheets))

SNext ==
  \/ \E i \in 1..MaxSheets : SetSheet(i) \/ DuplicateSheet(i) \/ DeleteSheet(i) \/ HideSheet(i)
  \/ \E i, j \in 1..MaxSheets : MoveSheet(i, j)
  \/ \E p \in Cells : SetCell(p[1], p[2])
  \/ \E p \in OffGrid : RejectTarget(p[1], p[2])
  \/ \E p, q \in Cells : SetRange(p[1], p[2], q[1], q[2])
  \/ \E d \in {<<0, 1>>, <<0, -1>>, <<1, 0>>, <<-1, 0>>} : Arrow(d[1], d[2])
  \/ NewSheet \/ UndoSheetOp \/ RedoSheetOp

SSpec == SInit /\ [][SNext]_svars
=============================================================================
