--------------------------- MODULE TraceHistory ---------------------------
(* Trace validation of recorded UserModel histories against History.tla.   *)
(* One ndjson event per public call, logged at its return, carrying the    *)
(* result and the projected state (doc id, stack depths, replica doc id).  *)
(* Each event is matched against the History action it names, constrained *)
(* by the logged fields.  An event no action allows is a VIOLATION: it is  *)
(* printed with the property it breaks, and the monitor re-synchronises    *)
(* (or gives the run up until the next reset) so that the rest of the      *)
(* trace is still checked.  The trace is accepted iff every event was      *)
(* consumed; the verdict is the list of printed violations.                *)
EXTENDS History, Json, IOUtils

Rec == ndJsonDeserialize(IOEnv.TRACE)

VARIABLES l, lost, nviol
tvars == <<hvars, l, lost, nviol>>

E == Rec[l]
H(u, r, q) == E.hist = <<u, r, q>>
SameDepths == H(Len(undo), Len(redo), Len(queue))

Viol(prop, why, want, got) == PrintT(<<"VIOL", l, prop, why, want, got>>) /\ nviol' = nviol + 1
Good == nviol' = nviol

TraceInit == HInit(0) /\ l = 1 /\ lost = FALSE /\ nviol = 0

Consume == l <= Len(Rec) /\ l' = l + 1

TrReset ==
  /\ E.ev = "reset"
  /\ doc' = E.doc /\ rdoc' = E.doc
  /\ undo' = <<>> /\ redo' = <<>> /\ queue' = <<>> /\ net' = <<>>
  /\ timeline' = <<E.doc>> /\ cursor' = 1
  /\ lost' = FALSE /\ Good

Skip == E.ev # "reset" /\ lost /\ UNCHANGED <<hvars, lost, nviol>>

GiveUp == UNCHANGED hvars /\ lost' = TRUE

(* A recorded, successful operation; or a successful call that recorded     *)
(* nothing and changed nothing.                                            *)
TrOpOk ==
  /\ E.ev = "op" /\ E.res = "ok" /\ ~lost
  /\ IF H(Len(undo) + 1, 0, Len(queue) + 1)
       THEN Op(E.doc) /\ Good /\ UNCHANGED lost
     ELSE IF SameDepths /\ E.doc = doc
       THEN NoOp /\ Good /\ UNCHANGED lost
     ELSE IF E.hist[2] # 0 /\ E.hist[1] = Len(undo) + 1
       THEN Viol("C02", "redo-not-cleared", doc, E.doc) /\ GiveUp
     ELSE Viol("C01", "op-unrecorded", doc, E.doc) /\ GiveUp

(* C04 *)
TrOpErr ==
  /\ E.ev = "op" /\ E.res = "err" /\ ~lost
  /\ IF SameDepths /\ E.doc = doc
       THEN Fail /\ Good /\ UNCHANGED lost
     ELSE IF SameDepths
       THEN Viol("C04", "fail-changed", doc, E.doc) /\ GiveUp
     ELSE IF H(Len(undo) + 1, 0, Len(queue) + 1)
       \* an entry was pushed although the call failed: keep the stacks in step
       THEN Viol("C04", "fail-pushed", doc, E.doc) /\ Op(E.doc) /\ UNCHANGED lost
     ELSE Viol("C04", "fail-history", doc, E.doc) /\ GiveUp

TrPanic ==
  /\ E.ev \in {"op", "undo", "redo", "apply", "reload"} /\ E.res = "panic" /\ ~lost
  /\ Viol("PANIC", E.ev, doc, doc) /\ GiveUp

TrUndo ==
  /\ E.ev = "undo" /\ E.res # "panic" /\ ~lost
  /\ IF undo = <<>>
       THEN IF SameDepths /\ E.doc = doc THEN NoOp /\ Good /\ UNCHANGED lost
            ELSE Viol("C01", "undo-empty-changed", doc, E.doc) /\ GiveUp
     ELSE IF E.res = "ok" /\ H(Len(undo) - 1, Len(redo) + 1, Len(queue) + 1)
       THEN IF E.doc = Last(undo).pre
              THEN Undo /\ Good /\ UNCHANGED lost
              ELSE Viol("C01", "undo-restore", Last(undo).pre, E.doc) /\ GiveUp
     ELSE Viol("C01", "undo-failed", Last(undo).pre, E.doc) /\ GiveUp

TrRedo ==
  /\ E.ev = "redo" /\ E.res # "panic" /\ ~lost
  /\ IF redo = <<>>
       THEN IF SameDepths /\ E.doc = doc THEN NoOp /\ Good /\ UNCHANGED lost
            ELSE Viol("C02", "redo-empty-changed", doc, E.doc) /\ GiveUp
     ELSE IF E.res = "ok" /\ H(Len(undo) + 1, Len(redo) - 1, Len(queue) + 1)
       THEN IF E.doc = Last(redo).post
              THEN Redo /\ Good /\ UNCHANGED lost
              ELSE Viol("C02", "redo-reapply", Last(redo).post, E.doc) /\ GiveUp
     ELSE Viol("C02", "redo-failed", Last(redo).post, E.doc) /\ GiveUp

TrFlush ==
  /\ E.ev = "flush" /\ ~lost
  /\ IF H(Len(undo), Len(redo), 0) /\ E.doc = doc
       THEN Flush /\ Good /\ UNCHANGED lost
       ELSE Viol("C03", "flush-broken", doc, E.doc) /\ GiveUp

(* C03: after applying a batch the replica shows what the primary showed   *)
(* when that batch was flushed.  On divergence the recorder re-creates the *)
(* replica from the primary's bytes at that flush (event "rsync"), so the  *)
(* spec continues from the wanted document and later batches are judged    *)
(* on their own.                                                           *)
TrApply ==
  /\ E.ev = "apply" /\ E.res # "panic" /\ ~lost
  /\ net # <<>>
  /\ LET want == ApplyBatch(rdoc, Head(net)) IN
       IF E.res = "ok" /\ E.rdoc = want
         THEN Apply /\ Good /\ UNCHANGED lost
         ELSE /\ Viol("C03", IF E.res = "ok" THEN "replica-diverged" ELSE "replica-stuck", want, E.rdoc)
              /\ rdoc' = want /\ net' = Tail(net)
              /\ UNCHANGED <<doc, undo, redo, queue, timeline, cursor, lost>>

TrRsync ==
  /\ E.ev = "rsync" /\ ~lost
  /\ UNCHANGED <<hvars, lost>> /\ Good

(* C26 *)
TrReload ==
  /\ E.ev = "reload" /\ E.res # "panic" /\ ~lost
  /\ IF E.res = "ok" /\ H(0, 0, 0) /\ queue = <<>> /\ net = <<>>
       THEN IF E.doc = doc
              THEN Reload /\ Good /\ UNCHANGED lost
              ELSE Viol("C26", "reload-changed", doc, E.doc) /\ GiveUp
       ELSE Viol("C26", "reload-failed", doc, E.doc) /\ GiveUp

(* C26, second half: the reloaded model keeps behaving like the model that *)
(* was never reloaded (shadow), event "shadow" logs both documents.        *)
TrShadow ==
  /\ E.ev = "shadow" /\ ~lost
  /\ UNCHANGED <<hvars, lost>>
  /\ IF E.sdoc = E.doc /\ E.doc = doc THEN Good
     ELSE Viol("C26", "shadow-diverged", E.sdoc, E.doc)

TraceNext ==
  /\ Consume
  /\ \/ TrReset \/ Skip \/ TrOpOk \/ TrOpErr \/ TrPanic \/ TrUndo \/ TrRedo
     \/ TrFlush \/ TrApply \/ TrRsync \/ TrReload \/ TrShadow

TraceSpec == TraceInit /\ [][TraceNext]_tvars

(* The design invariants must hold along every validated trace as well.    *)
TraceInv == lost \/ (Len(undo) = cursor - 1 /\ Len(redo) = Len(timeline) - cursor)

TraceAccepted ==
  LET d == TLCGet("stats").diameter IN
  IF d - 1 = Len(Rec) THEN PrintT(<<"ACCEPTED", Len(Rec)>>)
  ELSE Print(<<"REJECTED at event", d, Rec[d]>>, FALSE)
=============================================================================
