SPECIFICATION TraceSpec
CONSTANTS
  LastRow = 1048576
  LastCol = 16384
POSTCONDITION TraceAccepted
CHECK_DEADLOCK FALSE
