----------------------------- MODULE NumberInput -----------------------------
(***************************************************************************)
(* C19 - typed numbers are recognised exactly.                              *)
(*                                                                         *)
(* The grammar of the property statement on sequences of characters:       *)
(*   number   ::= [sign] mantissa [exponent]                                *)
(*   mantissa ::= integer [D digit*] | D digit+                             *)
(*   integer  ::= digit+ | digit+ (G digit digit digit)+   (G correctly placed) *)
(*   exponent ::= (e|E) [sign] digit+                                       *)
(*   input    ::= number | number % | [sign] C unsigned | C number | number C *)
(* D / G are the decimal / group separators of the locale, C a currency    *)
(* symbol.  The value is an exact decimal (sign, digit string, power of     *)
(* ten) - never a machine number.                                           *)
(***************************************************************************)
EXTENDS Integers, Sequences, FiniteSets, TLC, Json

CONSTANTS MaxLen, Alphabet

Digit == {"0", "1", "2", "3", "4", "5", "6", "7", "8", "9"}
Sign  == {"+", "-"}
Cur   == {"$", "€"}
DigitVal(ch) == CASE ch = "0" -> 0 [] ch = "1" -> 1 [] ch = "2" -> 2 [] ch = "3" -> 3 [] ch = "4" -> 4
                  [] ch = "5" -> 5 [] ch = "6" -> 6 [] ch = "7" -> 7 [] ch = "8" -> 8 [] ch = "9" -> 9

AllDigits(s) == \A i \in 1..Len(s) : s[i] \in Digit
RECURSIVE IntOf(_)
IntOf(s) == IF s = <<>> THEN 0 ELSE IntOf(SubSeq(s, 1, Len(s) - 1)) * 10 + DigitVal(s[Len(s)])

(* first position of a character of set S in s, 0 if none *)
First(s, S) == IF \E i \in 1..Len(s) : s[i] \in S THEN CHOOSE i \in 1..Len(s) : s[i] \in S /\ \A j \in 1..(i - 1) : s[j] \notin S ELSE 0
Count(s, S) == Cardinality({i \in 1..Len(s) : s[i] \in S})
Before(s, i) == SubSeq(s, 1, i - 1)
After(s, i) == SubSeq(s, i + 1, Len(s))

No == [ok |-> FALSE]

(* integer part with optional, correctly placed group separators *)
RECURSIVE Groups3(_, _)
Groups3(s, G) ==      \* s = (G ddd)*
  IF s = <<>> THEN [ok |-> TRUE, digits |-> <<>>]
  ELSE IF Len(s) >= 4 /\ s[1] = G /\ AllDigits(SubSeq(s, 2, 4))
    THEN LET r == Groups3(SubSeq(s, 5, Len(s)), G) IN
         IF r.ok THEN [ok |-> TRUE, digits |-> SubSeq(s, 2, 4) \o r.digits] ELSE No
  ELSE No
IntPart(s, G) ==
  IF s = <<>> THEN No
  ELSE IF AllDigits(s) THEN [ok |-> TRUE, digits |-> s, grouped |-> FALSE]
  ELSE LET g == First(s, {G}) IN
       IF g >= 2 /\ AllDigits(Before(s, g))       \* the first group may have any length (1234,567 is tolerated)
         THEN LET r == Groups3(SubSeq(s, g, Len(s)), G) IN
              IF r.ok THEN [ok |-> TRUE, digits |-> Before(s, g) \o r.digits, grouped |-> TRUE] ELSE No
         ELSE No

(* mantissa: integer [D digit*] | D digit+ *)
Mantissa(s, D, G) ==
  LET d == First(s, {D}) IN
  IF d = 0 THEN (LET ip == IntPart(s, G) IN IF ip.ok THEN [ok |-> TRUE, digits |-> ip.digits, scale |-> 0, grouped |-> ip.grouped] ELSE No)
  ELSE LET intp == Before(s, d)  frac == After(s, d) IN
       IF ~AllDigits(frac) THEN No
       ELSE IF intp = <<>> THEN (IF frac = <<>> THEN No ELSE [ok |-> TRUE, digits |-> frac, scale |-> Len(frac), grouped |-> FALSE])
       ELSE LET ip == IntPart(intp, G) IN
            IF ip.ok THEN [ok |-> TRUE, digits |-> ip.digits \o frac, scale |-> Len(frac), grouped |-> ip.grouped] ELSE No

(* unsigned number: mantissa [exponent] *)
Unsigned(s, D, G) ==
  LET e == First(s, {"e", "E"}) IN
  IF e = 0 THEN (LET m == Mantissa(s, D, G) IN
                 IF m.ok THEN [ok |-> TRUE, digits |-> m.digits, e10 |-> 0 - m.scale, grouped |-> m.grouped, sci |-> FALSE] ELSE No)
  ELSE LET m == Mantissa(Before(s, e), D, G)
           x == After(s, e)
           xneg == x # <<>> /\ x[1] = "-"
           xd == IF x # <<>> /\ x[1] \in Sign THEN Tail(x) ELSE x IN
       IF m.ok /\ xd # <<>> /\ AllDigits(xd) /\ Len(xd) <= 3
         THEN [ok |-> TRUE, digits |-> m.digits, e10 |-> (IF xneg THEN 0 - IntOf(xd) ELSE IntOf(xd)) - m.scale, grouped |-> m.grouped, sci |-> TRUE]
         ELSE No

Signed(s, D, G) ==
  IF s # <<>> /\ s[1] \in Sign
    THEN LET u == Unsigned(Tail(s), D, G) IN IF u.ok THEN [u EXCEPT !.ok = TRUE] @@ [neg |-> s[1] = "-"] ELSE No
    ELSE LET u == Unsigned(s, D, G) IN IF u.ok THEN u @@ [neg |-> FALSE] ELSE No

Kinds(base, n) == {base} \cup (IF n.sci THEN {"scientific"} ELSE {})
Result(n, kinds, shift, neg) == [v |-> "num", neg |-> neg, digits |-> n.digits, e10 |-> n.e10 + shift, kinds |-> kinds]

Recognise(s, D, G) ==
  IF \E i \in 1..Len(s) : s[i] = " " THEN [v |-> "nov", why |-> "space"]
  ELSE IF \E i \in 1..Len(s) : s[i] = "/" THEN [v |-> "nov", why |-> "date-like"]
  ELSE LET n == Len(s)
           plain == Signed(s, D, G)
           pct == IF n >= 2 /\ s[n] = "%" THEN Signed(Before(s, n), D, G) ELSE No
           cpre == IF n >= 2 /\ s[1] \in Cur THEN Signed(Tail(s), D, G) ELSE No                     \* $-3.5, $12
           spre == IF n >= 3 /\ s[1] \in Sign /\ s[2] \in Cur THEN Unsigned(SubSeq(s, 3, n), D, G) ELSE No   \* -$3.5
           csuf == IF n >= 2 /\ s[n] \in Cur THEN Signed(Before(s, n), D, G) ELSE No                \* 12€
       IN
       IF plain.ok THEN Result(plain, IF plain.sci THEN {"scientific"} ELSE IF plain.grouped THEN {"grouped"} ELSE {"general", "any"}, 0, plain.neg)
       ELSE IF pct.ok THEN Result(pct, Kinds("percent", pct), -2, pct.neg)
       ELSE IF cpre.ok THEN Result(cpre, Kinds("currency", cpre), 0, cpre.neg)
       ELSE IF spre.ok THEN Result(spre, Kinds("currency", spre), 0, s[1] = "-")
       ELSE IF csuf.ok THEN Result(csuf, Kinds("currency", csuf), 0, csuf.neg)
       ELSE IF s # <<>> /\ s[1] \in Sign THEN [v |-> "nov", why |-> "leading-sign-may-be-formula"]
       ELSE [v |-> "not"]

(* ---- enumeration: every string up to MaxLen over the alphabet, two separator classes ---- *)
RECURSIVE Strings(_)
Strings(n) == IF n = 0 THEN {<<>>} ELSE LET P == Strings(n - 1) IN P \cup {Append(p, x) : p \in {q \in P : Len(q) = n - 1}, x \in Alphabet}
LocaleClasses == { [name |-> "en", D |-> ".", G |-> ","], [name |-> "de", D |-> ",", G |-> "."] }

MCAlphabet == {"1", "2", "0", ",", ".", "-", "+", "e", "%", "$", "€", "/", " "}
(* longer strings composed from the parts of the grammar: [sign] [currency] mantissa [exponent] [% | currency],
   and the sign after the currency symbol *)
SignParts == {<<>>, <<"-">>, <<"+">>}
CurParts  == {<<>>, <<"$">>, <<"€">>}
MantParts == {<<"1">>, <<"1", "2">>, <<"1", ".", "5">>, <<"1", ",", "5">>, <<"1", ",", "2", "0", "0">>, <<"1", ".", "2", "0", "0">>,
              <<".", "5">>, <<"1", ".">>, <<"1", ",", ",", "2", "0", "0">>, <<"1", "2", ",", "0", "0">>}
ExpParts  == {<<>>, <<"e", "1">>, <<"E", "-", "1">>, <<"e", "+", "2">>, <<"e">>}
SufParts  == {<<>>, <<"%">>, <<"$">>, <<"€">>}
Composed == {sg \o cu \o m \o x \o sf : sg \in SignParts, cu \in CurParts, m \in MantParts, x \in ExpParts, sf \in SufParts}
            \cup {cu \o sg \o m \o x : sg \in SignParts \ {<<>>}, cu \in CurParts \ {<<>>}, m \in MantParts, x \in ExpParts}

VARIABLE c
NInit == c \in [s : (Strings(MaxLen) \cup Composed) \ {<<>>}, loc : LocaleClasses]
NSpec == NInit /\ [][UNCHANGED c]_c

(* design-level sanity: a recognised number has digits, and the verdict does not depend on
   which separator class is used once separators are swapped consistently *)
Swap(s, a, b) == [i \in 1..Len(s) |-> IF s[i] = a THEN b ELSE IF s[i] = b THEN a ELSE s[i]]
LocaleSymmetry == Recognise(c.s, ".", ",") = Recognise(Swap(c.s, ".", ","), ",", ".")
DigitsNonEmpty == LET r == Recognise(c.s, c.loc.D, c.loc.G) IN r.v = "num" => (r.digits # <<>> /\ AllDigits(r.digits))

Emit == PrintT(<<"CASE", ToJson([s |-> c.s, locale |-> c.loc.name, r |-> Recognise(c.s, c.loc.D, c.loc.G)])>>)
=============================================================================
