----------------------------- MODULE Structural -----------------------------
(***************************************************************************)
(* C12 / C13 / C14 / C15 / C33 - structural edits of the grid.              *)
(*                                                                         *)
(* An abstract two-sheet workbook: a finite map from positions to cell      *)
(* contents (number, quote-prefixed text, formula = list of references),    *)
(* row heights, column widths, hyperlinks and one conditional-format area.  *)
(* Inserting, deleting and moving rows or columns of sheet 1 are defined    *)
(* through ONE position map sigma: everything that sits on the grid (cells, *)
(* sizes, links) moves by sigma, and every reference end in every formula   *)
(* of every sheet - and the conditional-format area, like a range - is      *)
(* displaced by the same sigma (a deleted target becomes #REF!).            *)
(*   C12  insert: nothing is lost, ranges grow, values are preserved        *)
(*   C13  delete: the rest shifts, only references to deleted cells break   *)
(*   C14  insert(i,k) ; delete(i,k) = identity      (checked here by TLC)   *)
(*   C15  move: a permutation of rows / columns, references follow          *)
(*   C33  links and conditional-format areas move exactly like formulas     *)
(***************************************************************************)
EXTENDS Integers, Sequences, FiniteSets, TLC, Json

CONSTANTS Last,        \* rows and columns 1..Last of sheet 1 are in play (far from the real grid edge)
          MaxK,        \* insert / delete / move 1..MaxK rows or columns at a time
          MaxD,        \* move by -MaxD..MaxD
          MaxSteps,
          Mode         \* "structural": insert / delete / move / clear / undo; "clipboard": cut and copy areas (C16)

Bottom == 0     \* the image of a deleted row / column
MaxRC == 999    \* stands for "the last row / column" in whole-column and whole-row ranges
GridRows == 1048576   \* the real grid: a reference pushed beyond it becomes #REF!
GridCols == 16384
GridLast(axis) == IF axis = "r" THEN GridRows ELSE GridCols
(* positions the maps are defined on: the window in play and the last rows / columns of the grid *)
Dom(axis) == (0..(Last + 4 * MaxK + 2 * MaxD)) \cup ((GridLast(axis) - 12)..GridLast(axis))

(* ---- references --------------------------------------------------------- *)
CellRef(s, r, c, ar, ac) == [kind |-> "cell", s |-> s, r1 |-> r, c1 |-> c, ar1 |-> ar, ac1 |-> ac, r2 |-> r, c2 |-> c, ar2 |-> ar, ac2 |-> ac, st |-> "ok"]
RangeRef(s, r1, c1, r2, c2, ar1, ac1, ar2, ac2) ==
  [kind |-> "range", s |-> s, r1 |-> r1, c1 |-> c1, ar1 |-> ar1, ac1 |-> ac1, r2 |-> r2, c2 |-> c2, ar2 |-> ar2, ac2 |-> ac2, st |-> "ok"]
ColsRef(s, c1, c2, ac1, ac2) == [kind |-> "cols", s |-> s, r1 |-> 1, c1 |-> c1, ar1 |-> FALSE, ac1 |-> ac1, r2 |-> MaxRC, c2 |-> c2, ar2 |-> FALSE, ac2 |-> ac2, st |-> "ok"]   \* C:D
RowsRef(s, r1, r2, ar1, ar2) == [kind |-> "rows", s |-> s, r1 |-> r1, c1 |-> 1, ar1 |-> ar1, ac1 |-> FALSE, r2 |-> r2, c2 |-> MaxRC, ar2 |-> ar2, ac2 |-> FALSE, st |-> "ok"]   \* 2:3
NameRef(n) == [kind |-> "name", s |-> 0, r1 |-> 0, c1 |-> 0, ar1 |-> FALSE, ac1 |-> FALSE, r2 |-> 0, c2 |-> 0, ar2 |-> FALSE, ac2 |-> FALSE, st |-> "ok", name |-> n]
(* st: "ok" | "referr" (must be #REF!) | "open" (the statement leaves it open: either shrunk or #REF!) *)

(* b: the cell is bold (its style travels with it);  keep: the formula's value must be what it was *)
Num(id) == [k |-> "num", id |-> id, refs |-> <<>>, keep |-> TRUE, b |-> (id % 3 = 0)]
QText(id) == [k |-> "qtext", id |-> id, refs |-> <<>>, keep |-> TRUE, b |-> TRUE]
Lit(id) == [k |-> "lit", id |-> id, refs |-> <<>>, keep |-> TRUE, b |-> (id % 2 = 0)]    \* what is typed for id: the harness's vocabulary
Formula(id, refs) == [k |-> "f", id |-> id, refs |-> refs, keep |-> TRUE, b |-> (id \in {1, 4})]

VARIABLES cells,     \* set of [s, r, c, v]  (v: content)
          rowh, colw,  \* sets of <<index, size>> on sheet 1
          rowst, colst, \* rows / columns of sheet 1 that carry a style of their own (bold)
          links,     \* set of <<r, c>> on sheet 1 carrying a hyperlink
          cf,        \* the conditional-format rule of sheet 1: area [r1, c1, r2, c2, st] and the reference fref of its formula
          names,     \* defined names: set of [name, ref]
          prev,      \* the workbook before the last action (what undo restores)
          trail, steps
vars == <<cells, rowh, colw, rowst, colst, links, cf, names, prev, trail, steps>>
Book == [cells |-> cells, rowh |-> rowh, colw |-> colw, rowst |-> rowst, colst |-> colst, links |-> links, cf |-> cf, names |-> names]

(* ---- the initial workbook ------------------------------------------------ *)
Grid == {[s |-> 1, r |-> r, c |-> c, v |-> Num(r * 10 + c)] : r \in 1..4, c \in 1..4}
F(s, r, c, id, refs) == [s |-> s, r |-> r, c |-> c, v |-> Formula(id, refs)]
Formulas == {
  F(1, 2, 2, 1, <<CellRef(1, 3, 3, FALSE, FALSE), CellRef(1, 1, 1, TRUE, TRUE)>>),
  F(1, 5, 1, 2, <<RangeRef(1, 1, 1, 3, 2, FALSE, FALSE, FALSE, FALSE)>>),
  F(1, 1, 5, 3, <<RangeRef(1, 2, 1, 4, 1, TRUE, FALSE, FALSE, TRUE), CellRef(1, 4, 3, FALSE, TRUE)>>),
  F(1, 4, 4, 4, <<CellRef(1, 4, 3, TRUE, FALSE), CellRef(1, 5, 5, FALSE, FALSE)>>),
  F(2, 1, 1, 5, <<CellRef(1, 2, 3, FALSE, FALSE), RangeRef(1, 2, 2, 3, 3, FALSE, FALSE, TRUE, TRUE)>>),
  F(2, 3, 2, 6, <<CellRef(2, 1, 2, FALSE, FALSE), CellRef(1, 3, 1, TRUE, TRUE)>>),
  F(1, 3, 4, 7, <<RangeRef(1, 3, 1, 3, 3, FALSE, FALSE, FALSE, FALSE)>>),
  F(2, 2, 1, 8, <<ColsRef(1, 3, 4, FALSE, TRUE), RowsRef(1, 2, 2, FALSE, FALSE)>>),
  F(2, 4, 4, 9, <<NameRef("TAXRATE"), CellRef(1, 2, 4, FALSE, FALSE)>>),
  \* references at the edge of the grid: an insertion pushes them off
  F(2, 5, 1, 10, <<CellRef(1, GridRows, 1, FALSE, FALSE), CellRef(1, 1, GridCols, TRUE, TRUE)>>),
  F(2, 5, 2, 11, <<RangeRef(1, GridRows - 1, 2, GridRows, 2, FALSE, FALSE, FALSE, FALSE), CellRef(1, GridRows - 1, 1, FALSE, FALSE)>>) }
L(r, c, id) == [s |-> 1, r |-> r, c |-> c, v |-> Lit(id)]
Others == {[s |-> 1, r |-> 1, c |-> 3, v |-> QText(7)], [s |-> 2, r |-> 1, c |-> 2, v |-> Num(99)],
           L(1, 4, 102), L(2, 4, 103), L(4, 2, 104), L(2, 1, 105), L(3, 2, 106), L(2, 3, 107),
           L(2, 5, 108), L(3, 5, 110), L(4, 5, 109), L(5, 2, 111), L(5, 3, 112), L(5, 4, 113)}
Names0 == {[name |-> "TAXRATE", ref |-> CellRef(1, 3, 2, TRUE, TRUE)]}
Occupied(S) == {<<x.s, x.r, x.c>> : x \in S}
Cells0 == {x \in Grid : <<x.s, x.r, x.c>> \notin Occupied(Formulas \cup Others)} \cup Formulas \cup Others

Rowst0 == {7, 9}      \* rows and columns without cells: a band style and a cell style never meet
Colst0 == {7, 9}
Rowh0 == {<<2, 40>>, <<4, 60>>}
Colw0 == {<<1, 120>>, <<3, 50>>, <<4, 50>>}     \* columns 3-4 share one descriptor
Links0 == {<<1, 2>>, <<3, 3>>, <<4, 1>>, <<5, 3>>}    \* (5,3) holds a URL: the engine links it by itself
Cf0 == [r1 |-> 2, c1 |-> 2, r2 |-> 3, c2 |-> 4, st |-> "ok", fref |-> CellRef(1, 5, 5, TRUE, TRUE)]
SInit ==
  /\ cells = Cells0
  /\ rowh = Rowh0 /\ colw = Colw0 /\ rowst = Rowst0 /\ colst = Colst0
  /\ links = Links0
  /\ cf = Cf0 /\ names = Names0
  /\ prev = [cells |-> Cells0, rowh |-> Rowh0, colw |-> Colw0, rowst |-> Rowst0, colst |-> Colst0, links |-> Links0, cf |-> Cf0, names |-> Names0]
  /\ trail = <<>> /\ steps = 0

(* ---- position maps (on one coordinate) ------------------------------------ *)
SigIns(i, k, axis) == [p \in Dom(axis) |-> IF p >= i THEN (IF p + k > GridLast(axis) THEN Bottom ELSE p + k) ELSE p]    \* pushed off the grid: gone
SigDel(i, k, axis) == [p \in Dom(axis) |-> IF p < i THEN p ELSE IF p < i + k THEN Bottom ELSE p - k]
SigMove(i, n, d, axis) ==       \* block [i, i+n-1] moved by d; the band in between shifts by n the other way
  [p \in Dom(axis) |->
     IF p \in i..(i + n - 1) THEN p + d
     ELSE IF d > 0 /\ p \in (i + n)..(i + n - 1 + d) THEN p - n
     ELSE IF d < 0 /\ p \in (i + d)..(i - 1) THEN p + n
     ELSE p]

(* ---- displacement of a reference by sigma acting on rows (axis = "r") or columns ("c") of sheet 1 ---- *)
End1(ref, axis) == IF axis = "r" THEN ref.r1 ELSE ref.c1
End2(ref, axis) == IF axis = "r" THEN ref.r2 ELSE ref.c2
WithEnds(ref, axis, a, b) == IF axis = "r" THEN [ref EXCEPT !.r1 = a, !.r2 = b] ELSE [ref EXCEPT !.c1 = a, !.c2 = b]

(* how a moved block relates to a range (C15's side condition) *)
Inside(lo, hi, a, b) == lo >= a /\ hi <= b
Disjoint(lo, hi, a, b) == hi < a \/ lo > b
MoveClassOK(lo, hi, i, n, d) ==
  LET blockLo == i  blockHi == i + n - 1
      bandLo == IF d > 0 THEN i + n ELSE i + d
      bandHi == IF d > 0 THEN i + n - 1 + d ELSE i - 1 IN
  \/ Inside(lo, hi, blockLo, blockHi)
  \/ Inside(lo, hi, bandLo, bandHi)
  \/ (Disjoint(lo, hi, blockLo, blockHi) /\ Disjoint(lo, hi, bandLo, bandHi))

Displace(ref, axis, sig, op, i, n, d) ==
  IF ref.s # 1 \/ ref.st # "ok" THEN ref
  ELSE IF (ref.kind = "cols" /\ axis = "r") \/ (ref.kind = "rows" /\ axis = "c") THEN ref    \* a whole column has no row ends
  ELSE LET a == End1(ref, axis)  b == End2(ref, axis) IN
       IF ref.kind = "cell"
         THEN IF sig[a] = Bottom THEN [ref EXCEPT !.st = "referr"] ELSE WithEnds(ref, axis, sig[a], sig[a])
       ELSE IF op = "move"
         THEN IF MoveClassOK(a, b, i, n, d) THEN WithEnds(ref, axis, sig[a], sig[b]) ELSE [ref EXCEPT !.st = "open"]
       ELSE IF sig[a] = Bottom \/ sig[b] = Bottom
         THEN IF \A p \in a..b : sig[p] = Bottom THEN [ref EXCEPT !.st = "referr"]    \* the whole range is gone
              ELSE [ref EXCEPT !.st = "open"]                                          \* an end is gone: shrink or #REF!
       ELSE WithEnds(ref, axis, sig[a], sig[b])

(* does the formula read a deleted cell / a range the move may have torn? then its value is not constrained *)
TouchesRef(ref, axis, sig, op, i, n, d) ==
  ref.s = 1 /\ ref.st = "ok" /\
  IF (ref.kind = "cols" /\ axis = "r") \/ (ref.kind = "rows" /\ axis = "c")
    THEN op # "ins"          \* a whole column reads the deleted rows; a move inside it is outside C15's side condition
  ELSE LET a == End1(ref, axis)  b == End2(ref, axis) IN
       IF op = "move" THEN ref.kind # "cell" /\ ~MoveClassOK(a, b, i, n, d)
       ELSE \E p \in a..b : sig[p] = Bottom
Touches(ref, axis, sig, op, i, n, d) ==
  IF ref.kind = "name" THEN \E nm \in names : nm.name = ref.name /\ TouchesRef(nm.ref, axis, sig, op, i, n, d)
  ELSE TouchesRef(ref, axis, sig, op, i, n, d)

(* blank: the deleted band is the one the previous step inserted - it holds nothing, so no value can change (C14) *)
DisplaceContent(v, axis, sig, op, i, n, d, blank) ==
  IF v.k # "f" THEN v
  ELSE [v EXCEPT !.refs = [j \in 1..Len(v.refs) |-> Displace(v.refs[j], axis, sig, op, i, n, d)],
                 !.keep = v.keep /\ (blank \/ ~\E j \in 1..Len(v.refs) : Touches(v.refs[j], axis, sig, op, i, n, d))]

(* a formula that reads a formula whose value is no longer constrained is not constrained either *)
Reads(x, y, NM) == \E j \in 1..Len(x.v.refs) :
                 LET ref0 == x.v.refs[j]
                     ref == IF ref0.kind = "name" THEN (CHOOSE nm \in NM : nm.name = ref0.name).ref ELSE ref0 IN
                 ref.st = "ok" /\ ref.s = y.s /\ y.r \in ref.r1..ref.r2 /\ y.c \in ref.c1..ref.c2
Propagate(S, NM) == { IF x.v.k = "f" /\ x.v.keep /\ (\E y \in S : y.v.k = "f" /\ ~y.v.keep /\ Reads(x, y, NM))
                    THEN [x EXCEPT !.v.keep = FALSE] ELSE x : x \in S }

Coord(x, axis) == IF axis = "r" THEN x.r ELSE x.c
MoveCell(x, axis, q) == IF axis = "r" THEN [x EXCEPT !.r = q] ELSE [x EXCEPT !.c = q]

Apply(axis, sig, op, i, n, d, a) ==
  LET blank == /\ op = "del" /\ trail # <<>>
               /\ trail[Len(trail)].a.op = (IF axis = "r" THEN "insert_rows" ELSE "insert_cols")
               /\ trail[Len(trail)].a.i = i /\ trail[Len(trail)].a.k = n
      NM == {[nm EXCEPT !.ref = Displace(nm.ref, axis, sig, op, i, n, d)] : nm \in names}
      P(S) == Propagate(S, NM) IN
  /\ cells' = P(P(P(
                { MoveCell([x EXCEPT !.v = DisplaceContent(x.v, axis, sig, op, i, n, d, blank)], axis, IF x.s = 1 THEN sig[Coord(x, axis)] ELSE Coord(x, axis))
                  : x \in {y \in cells : y.s # 1 \/ sig[Coord(y, axis)] # Bottom} })))
  \* (the size of a freshly inserted row / column is left open: 0)
  /\ rowh' = IF axis = "r" THEN {<<sig[p[1]], p[2]>> : p \in {q \in rowh : sig[q[1]] # Bottom}} \cup (IF op = "ins" THEN {<<p, 0>> : p \in i..(i + n - 1)} ELSE {}) ELSE rowh
  /\ colw' = IF axis = "c" THEN {<<sig[p[1]], p[2]>> : p \in {q \in colw : sig[q[1]] # Bottom}} \cup (IF op = "ins" THEN {<<p, 0>> : p \in i..(i + n - 1)} ELSE {}) ELSE colw
  /\ rowst' = IF axis = "r" THEN {sig[p] : p \in {q \in rowst : sig[q] # Bottom}} ELSE rowst
  /\ colst' = IF axis = "c" THEN {sig[p] : p \in {q \in colst : sig[q] # Bottom}} ELSE colst
  /\ links' = IF axis = "r" THEN {<<sig[p[1]], p[2]>> : p \in {q \in links : sig[q[1]] # Bottom}}
              ELSE {<<p[1], sig[p[2]]>> : p \in {q \in links : sig[q[2]] # Bottom}}
  /\ cf' = LET asRange == RangeRef(1, cf.r1, cf.c1, cf.r2, cf.c2, FALSE, FALSE, FALSE, FALSE)
               moved == IF cf.st = "ok" THEN Displace(asRange, axis, sig, op, i, n, d) ELSE [asRange EXCEPT !.st = cf.st] IN
           [r1 |-> moved.r1, c1 |-> moved.c1, r2 |-> moved.r2, c2 |-> moved.c2, st |-> moved.st,
            fref |-> Displace(cf.fref, axis, sig, op, i, n, d)]
  /\ names' = NM
  /\ prev' = Book
  /\ steps' = steps + 1
  /\ trail' = Append(trail, [a |-> a, cells |-> cells', rowh |-> rowh', colw |-> colw', rowst |-> rowst', colst |-> colst', links |-> links', cf |-> cf', names |-> names'])

InsRows(i, k) == Apply("r", SigIns(i, k, "r"), "ins", i, k, 0, [op |-> "insert_rows", s |-> 0, i |-> i, k |-> k])
InsCols(i, k) == Apply("c", SigIns(i, k, "c"), "ins", i, k, 0, [op |-> "insert_cols", s |-> 0, i |-> i, k |-> k])
DelRows(i, k) == Apply("r", SigDel(i, k, "r"), "del", i, k, 0, [op |-> "delete_rows", s |-> 0, i |-> i, k |-> k])
DelCols(i, k) == Apply("c", SigDel(i, k, "c"), "del", i, k, 0, [op |-> "delete_cols", s |-> 0, i |-> i, k |-> k])
MoveRows(i, n, d) == i + d >= 1 /\ Apply("r", SigMove(i, n, d, "r"), "move", i, n, d, [op |-> "move_rows", s |-> 0, i |-> i, k |-> n, d |-> d])
MoveCols(i, n, d) == i + d >= 1 /\ Apply("c", SigMove(i, n, d, "c"), "move", i, n, d, [op |-> "move_cols", s |-> 0, i |-> i, k |-> n, d |-> d])

(* ---- C33: clearing a cell's content removes its link (the style stays); undo restores it ---- *)
Clear(r, c) ==
  LET a == [op |-> "clear_contents", s |-> 0, r |-> r, c |-> c, w |-> 1, h |-> 1]
      P(S) == Propagate(S, names) IN
  /\ \E x \in cells : x.s = 1 /\ x.r = r /\ x.c = c
  /\ cells' = P(P(P(
        { IF x.v.k = "f" /\ (\E j \in 1..Len(x.v.refs) :
                           LET ref0 == x.v.refs[j]
                               ref == IF ref0.kind = "name" THEN (CHOOSE nm \in names : nm.name = ref0.name).ref ELSE ref0 IN
                           ref.st = "ok" /\ ref.s = 1 /\ r \in ref.r1..ref.r2 /\ c \in ref.c1..ref.c2)
            THEN [x EXCEPT !.v.keep = FALSE] ELSE x
          : x \in {y \in cells : ~(y.s = 1 /\ y.r = r /\ y.c = c)} })))
  /\ links' = links \ {<<r, c>>}
  /\ UNCHANGED <<rowh, colw, rowst, colst, cf, names>>
  /\ prev' = Book
  /\ steps' = steps + 1
  /\ trail' = Append(trail, [a |-> a, cells |-> cells', rowh |-> rowh', colw |-> colw', rowst |-> rowst', colst |-> colst', links |-> links', cf |-> cf', names |-> names'])
Undo ==
  /\ trail # <<>> /\ trail[Len(trail)].a.op = "clear_contents"
  /\ cells' = prev.cells /\ rowh' = prev.rowh /\ colw' = prev.colw /\ rowst' = prev.rowst /\ colst' = prev.colst /\ links' = prev.links /\ cf' = prev.cf /\ names' = prev.names
  /\ prev' = Book
  /\ steps' = steps + 1
  /\ trail' = Append(trail, [a |-> [op |-> "undo"], cells |-> cells', rowh |-> rowh', colw |-> colw', rowst |-> rowst', colst |-> colst', links |-> links', cf |-> cf', names |-> names'])
(* cutting a linked cell and pasting it on an empty one moves content, style and link; what formulas that *)
(* read the source become is another property's business (C04), so their references are left open        *)
CutPaste(r, c, tr, tc) ==
  LET a == [op |-> "copy_paste", s |-> 0, r |-> r, c |-> c, w |-> 1, h |-> 1, ts |-> 0, tr |-> tr, tc |-> tc, cut |-> TRUE] IN
  /\ <<r, c>> \in links
  /\ \E x \in cells : x.s = 1 /\ x.r = r /\ x.c = c /\ x.v.k = "num"
  /\ ~\E x \in cells : x.s = 1 /\ x.r = tr /\ x.c = tc
  /\ cells' = { IF x.s = 1 /\ x.r = r /\ x.c = c THEN [x EXCEPT !.r = tr, !.c = tc]
                ELSE IF x.v.k = "f" THEN [x EXCEPT !.v.keep = FALSE, !.v.refs = [j \in 1..Len(x.v.refs) |-> [x.v.refs[j] EXCEPT !.st = "open"]]]
                ELSE x : x \in cells }
  /\ links' = (links \ {<<r, c>>}) \cup {<<tr, tc>>}
  /\ cf' = [cf EXCEPT !.st = "open", !.fref = [cf.fref EXCEPT !.st = "open"]]
  /\ names' = {[nm EXCEPT !.ref.st = "open"] : nm \in names}
  /\ UNCHANGED <<rowh, colw, rowst, colst>>
  /\ prev' = Book
  /\ steps' = steps + 1
  /\ trail' = Append(trail, [a |-> a, cells |-> cells', rowh |-> rowh', colw |-> colw', rowst |-> rowst', colst |-> colst', links |-> links', cf |-> cf', names |-> names'])

(* ---- C16: cut and paste moves meaning, copy and paste translates it -------------------------------- *)
(* area: rows r1..r2, columns c1..c2 of sheet 1; pasted with its top-left corner at (ts, tr, tc)         *)
InArea(s, r, c, A) == s = 1 /\ r \in A.r1..A.r2 /\ c \in A.c1..A.c2
InDest(s, r, c, A, ts, dr, dc) == s = ts /\ (r - dr) \in A.r1..A.r2 /\ (c - dc) \in A.c1..A.c2
RefInside(ref, A) == ref.s = 1 /\ ref.r1 >= A.r1 /\ ref.r2 <= A.r2 /\ ref.c1 >= A.c1 /\ ref.c2 <= A.c2
RefMeets(ref, s, ra, rb, ca, cb) == ref.s = s /\ ~(ref.r2 < ra \/ ref.r1 > rb \/ ref.c2 < ca \/ ref.c1 > cb)
(* a reference after a cut: it follows the cells it pointed to if they all moved, is untouched if none did *)
CutRef(ref, A, ts, dr, dc) ==
  IF ref.st # "ok" \/ ref.kind = "name" THEN ref
  ELSE IF ref.kind \in {"cols", "rows"} THEN [ref EXCEPT !.st = "open"]          \* a whole column always meets the area
  ELSE IF RefInside(ref, A) THEN [ref EXCEPT !.s = ts, !.r1 = ref.r1 + dr, !.r2 = ref.r2 + dr, !.c1 = ref.c1 + dc, !.c2 = ref.c2 + dc]
  ELSE IF RefMeets(ref, 1, A.r1, A.r2, A.c1, A.c2) \/ RefMeets(ref, ts, A.r1 + dr, A.r2 + dr, A.c1 + dc, A.c2 + dc) THEN [ref EXCEPT !.st = "open"]
  ELSE ref
CutContent(v, A, ts, dr, dc) ==
  IF v.k # "f" THEN v
  ELSE LET rs == [j \in 1..Len(v.refs) |-> CutRef(v.refs[j], A, ts, dr, dc)] IN
       [v EXCEPT !.refs = rs, !.keep = v.keep /\ \A j \in 1..Len(rs) : rs[j].st = "ok"]
CutArea(A, ts, tr, tc) ==
  LET dr == tr - A.r1  dc == tc - A.c1
      a == [op |-> "copy_paste", s |-> 0, r |-> A.r1, c |-> A.c1, w |-> A.c2 - A.c1 + 1, h |-> A.r2 - A.r1 + 1, ts |-> ts - 1, tr |-> tr, tc |-> tc, cut |-> TRUE]
      NM == {[nm EXCEPT !.ref = CutRef(nm.ref, A, ts, dr, dc)] : nm \in names}
      P(S) == Propagate(S, NM)
      moved == {[x EXCEPT !.s = ts, !.r = x.r + dr, !.c = x.c + dc, !.v = CutContent(x.v, A, ts, dr, dc)] : x \in {y \in cells : InArea(y.s, y.r, y.c, A)}}
      stay == {[x EXCEPT !.v = CutContent(x.v, A, ts, dr, dc)] : x \in {y \in cells : ~InArea(y.s, y.r, y.c, A) /\ ~InDest(y.s, y.r, y.c, A, ts, dr, dc)}} IN
  /\ cells' = P(P(P(moved \cup stay)))
  /\ links' = IF ts = 1 THEN {p \in links : ~InArea(1, p[1], p[2], A) /\ ~InDest(1, p[1], p[2], A, ts, dr, dc)} \cup {<<p[1] + dr, p[2] + dc>> : p \in {q \in links : InArea(1, q[1], q[2], A)}}
              ELSE {p \in links : ~InArea(1, p[1], p[2], A)}
  /\ cf' = [cf EXCEPT !.st = "open", !.fref = [cf.fref EXCEPT !.st = "open"]]
  /\ names' = NM
  /\ UNCHANGED <<rowh, colw, rowst, colst>>
  /\ prev' = Book
  /\ steps' = steps + 1
  /\ trail' = Append(trail, [a |-> a, cells |-> cells', rowh |-> rowh', colw |-> colw', rowst |-> rowst', colst |-> colst', links |-> links', cf |-> cf', names |-> names', linksopen |-> (ts # 1)])

(* a copied formula: relative parts shifted by the paste offset, absolute parts and explicit sheets kept *)
Shift1(p, abs, d) == IF abs THEN p ELSE p + d
CopyRef(ref, hostS, ts, dr, dc) ==
  IF ref.st # "ok" \/ ref.kind = "name" THEN ref
  ELSE LET s2 == IF ref.s = hostS THEN ts ELSE ref.s
           r1 == IF ref.kind = "cols" THEN ref.r1 ELSE Shift1(ref.r1, ref.ar1, dr)
           r2 == IF ref.kind = "cols" THEN ref.r2 ELSE Shift1(ref.r2, ref.ar2, dr)
           c1 == IF ref.kind = "rows" THEN ref.c1 ELSE Shift1(ref.c1, ref.ac1, dc)
           c2 == IF ref.kind = "rows" THEN ref.c2 ELSE Shift1(ref.c2, ref.ac2, dc) IN
       IF r1 < 1 \/ r2 < 1 \/ c1 < 1 \/ c2 < 1 THEN [ref EXCEPT !.st = "referr"]
       \* a range is written top-left : bottom-right; when mixed $ flags make the ends cross, each coordinate keeps its flag
       ELSE LET swapR == r1 > r2  swapC == c1 > c2 IN
            [ref EXCEPT !.s = s2,
                        !.r1 = IF swapR THEN r2 ELSE r1, !.r2 = IF swapR THEN r1 ELSE r2, !.ar1 = IF swapR THEN ref.ar2 ELSE ref.ar1, !.ar2 = IF swapR THEN ref.ar1 ELSE ref.ar2,
                        !.c1 = IF swapC THEN c2 ELSE c1, !.c2 = IF swapC THEN c1 ELSE c2, !.ac1 = IF swapC THEN ref.ac2 ELSE ref.ac1, !.ac2 = IF swapC THEN ref.ac1 ELSE ref.ac2]
CopyContent(v, hostS, ts, dr, dc) ==
  IF v.k # "f" THEN v ELSE [v EXCEPT !.refs = [j \in 1..Len(v.refs) |-> CopyRef(v.refs[j], hostS, ts, dr, dc)], !.keep = FALSE]
CopyArea(A, ts, tr, tc) ==
  LET dr == tr - A.r1  dc == tc - A.c1
      a == [op |-> "copy_paste", s |-> 0, r |-> A.r1, c |-> A.c1, w |-> A.c2 - A.c1 + 1, h |-> A.r2 - A.r1 + 1, ts |-> ts - 1, tr |-> tr, tc |-> tc, cut |-> FALSE]
      P(S) == Propagate(S, names)
      pasted == {[x EXCEPT !.s = ts, !.r = x.r + dr, !.c = x.c + dc, !.v = CopyContent(x.v, x.s, ts, dr, dc)] : x \in {y \in cells : InArea(y.s, y.r, y.c, A)}}
      \* whoever reads a cell of the target area reads something new
      stay == {IF x.v.k = "f" /\ (\E j \in 1..Len(x.v.refs) : x.v.refs[j].st = "ok" /\ x.v.refs[j].kind # "name" /\ RefMeets(x.v.refs[j], ts, A.r1 + dr, A.r2 + dr, A.c1 + dc, A.c2 + dc))
                 THEN [x EXCEPT !.v.keep = FALSE] ELSE x
               : x \in {y \in cells : ~InDest(y.s, y.r, y.c, A, ts, dr, dc)}} IN
  /\ cells' = P(P(P(pasted \cup stay)))
  /\ cf' = [cf EXCEPT !.st = "open", !.fref = [cf.fref EXCEPT !.st = "open"]]     \* whether formats are copied along is not the statement's business
  /\ UNCHANGED <<rowh, colw, rowst, colst, links, names>>
  /\ prev' = Book
  /\ steps' = steps + 1
  /\ trail' = Append(trail, [a |-> a, cells |-> cells', rowh |-> rowh', colw |-> colw', rowst |-> rowst', colst |-> colst', links |-> links', cf |-> cf', names |-> names', linksopen |-> TRUE])

Areas == {[r1 |-> 2, r2 |-> 2, c1 |-> 2, c2 |-> 2], [r1 |-> 3, r2 |-> 3, c1 |-> 3, c2 |-> 3], [r1 |-> 1, r2 |-> 1, c1 |-> 1, c2 |-> 1], [r1 |-> 4, r2 |-> 4, c1 |-> 3, c2 |-> 4],
          [r1 |-> 2, r2 |-> 3, c1 |-> 2, c2 |-> 3], [r1 |-> 1, r2 |-> 3, c1 |-> 1, c2 |-> 2], [r1 |-> 3, r2 |-> 3, c1 |-> 1, c2 |-> 4], [r1 |-> 1, r2 |-> 5, c1 |-> 5, c2 |-> 5]}
PasteTargets == {<<1, 8, 8>>, <<1, 7, 2>>, <<2, 6, 6>>, <<2, 2, 2>>, <<1, 1, 7>>}
ClipNext == \E A \in Areas, t \in PasteTargets : CutArea(A, t[1], t[2], t[3]) \/ CopyArea(A, t[1], t[2], t[3])

SNext ==
  /\ steps < MaxSteps
  /\ IF Mode = "clipboard" THEN ClipNext ELSE
     \/ \E i \in 1..Last, k \in 1..MaxK : InsRows(i, k) \/ InsCols(i, k) \/ DelRows(i, k) \/ DelCols(i, k)
     \/ \E i \in 1..Last, n \in 1..MaxK, d \in ((0 - MaxD)..MaxD) \ {0} : MoveRows(i, n, d) \/ MoveCols(i, n, d)
     \/ \E r \in 1..5, c \in 1..5 : Clear(r, c)
     \/ Undo
     \/ \E p \in links, t \in {<<6, 2>>, <<2, 6>>, <<7, 7>>} : CutPaste(p[1], p[2], t[1], t[2])
SSpec == SInit /\ [][SNext]_vars

(* ---- C14 on the design: insert then delete of the same band is the identity ---- *)
IsInsDel ==
  Len(trail) = 2 /\ trail[1].a.op \in {"insert_rows", "insert_cols"} /\
  trail[2].a.op = (IF trail[1].a.op = "insert_rows" THEN "delete_rows" ELSE "delete_cols") /\
  trail[2].a.i = trail[1].a.i /\ trail[2].a.k = trail[1].a.k
(* ("provided the insertion pushed no reference off the grid": formulas 10 and 11 sit at the edge and are left out) *)
AwayFromEdge(S) == {x \in S : x.v.id \notin {10, 11}}
InsertDeleteIdentity == IsInsDel => (AwayFromEdge(cells) = AwayFromEdge(Cells0) /\ rowst = Rowst0 /\ colst = Colst0 /\ rowh = Rowh0 /\ colw = Colw0 /\ links = Links0 /\ cf = Cf0 /\ names = Names0)
(* C33 on the design: clear then undo is the identity *)
ClearUndoIdentity == (Len(trail) = 2 /\ trail[2].a.op = "undo") => (cells = Cells0 /\ links = Links0 /\ cf = Cf0)

(* C15 on the design: a move is a permutation - no cell is lost, no two cells collide *)
MovePermutes == [][ (trail' # trail /\ trail'[Len(trail')].a.op \in {"move_rows", "move_cols"}) =>
                    (Cardinality(cells') = Cardinality(cells) /\ Cardinality(Occupied(cells')) = Cardinality(cells')) ]_vars
(* C12 on the design: an insertion loses no cell and breaks no reference *)
InsertLosesNothing == [][ (trail' # trail /\ trail'[Len(trail')].a.op \in {"insert_rows", "insert_cols"}) =>
                    (Cardinality(cells') = Cardinality(cells) /\
                     \A x \in cells' : x.v.k = "f" => \A j \in 1..Len(x.v.refs) : (x.v.refs[j].st = "ok" \/ \E y \in cells : y.v.id = x.v.id /\ y.v.k = "f" /\ (y.v.refs[j].st # "ok" \/ y.v.refs[j].r2 > 1000 \/ y.v.refs[j].c2 > 1000))) ]_vars

Emit == (steps = MaxSteps) => PrintT(<<"BEHAVIOUR", ToJson([init |-> [cells |-> Cells0, rowh |-> Rowh0, colw |-> Colw0, rowst |-> Rowst0, colst |-> Colst0, links |-> Links0, cf |-> Cf0, names |-> Names0], steps |-> trail])>>)
=============================================================================
