SPECIFICATION RSpec
CONSTANTS
  N = 4
  MaxSteps = 2
INVARIANTS CircOnlyOnCycles SpillsExact Emit
CHECK_DEADLOCK FALSE
