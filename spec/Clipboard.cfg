SPECIFICATION SSpec
CONSTANTS
  Last = 5
  MaxK = 2
  MaxD = 2
  MaxSteps = 1
  Mode = "clipboard"
INVARIANTS InsertDeleteIdentity ClearUndoIdentity Emit
PROPERTIES MovePermutes InsertLosesNothing
CHECK_DEADLOCK FALSE
