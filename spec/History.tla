---------------------------- MODULE History ----------------------------
(***************************************************************************)
(* Undo / redo / outgoing diff queue / replica of the IronCalc user model. *)
(*                                                                         *)
(* The observable workbook is an OPAQUE document value `doc` (conformance   *)
(* binds it to the interned canonical projection of the real workbook).    *)
(* The spec does not compute doc' for a forward operation; it states what  *)
(* every inverse / frame action must do with it:                           *)
(*   C01  Undo   restores the document that preceded the undone operation  *)
(*   C02  Redo   re-applies it; a new operation discards the redo list     *)
(*   C03  a replica applying the flushed batches in order converges        *)
(*   C04  a failed call changes nothing (document, stacks, queue)          *)
(*   C26  Reload (to_bytes / from_bytes) is a stuttering step of `doc`     *)
(* One action per public call of UserModel (linearization point = return). *)
(***************************************************************************)
EXTENDS Integers, Sequences, FiniteSets, TLC

CONSTANT Doc          \* the set of opaque document values (naturals)
Stuck == -1           \* the replica could not apply an entry

VARIABLES
  doc,        \* the primary's observable workbook
  undo,       \* undo stack: sequence of [pre, post]
  redo,       \* redo stack: sequence of [pre, post]
  queue,      \* outgoing queue: sequence of [type, pre, post]
  net,        \* flushed batches not yet applied by the replica
  rdoc,       \* the replica's observable workbook
  timeline,   \* ghost: documents of the linear history
  cursor      \* ghost: position of `doc` in `timeline`

hvars == <<doc, undo, redo, queue, net, rdoc, timeline, cursor>>

Entry(p, q)     == [pre |-> p, post |-> q]
QEntry(t, p, q) == [type |-> t, pre |-> p, post |-> q]
Last(s)  == s[Len(s)]
Front(s) == SubSeq(s, 1, Len(s) - 1)

HInit(d0) ==
  /\ doc = d0 /\ rdoc = d0
  /\ undo = <<>> /\ redo = <<>> /\ queue = <<>> /\ net = <<>>
  /\ timeline = <<d0>> /\ cursor = 1

(* A successful recorded operation producing document d (d may equal doc). *)
Op(d) ==
  /\ doc' = d
  /\ undo' = Append(undo, Entry(doc, d))
  /\ redo' = <<>>
  /\ queue' = Append(queue, QEntry("Redo", doc, d))
  /\ timeline' = Append(SubSeq(timeline, 1, cursor), d)
  /\ cursor' = cursor + 1
  /\ UNCHANGED <<net, rdoc>>

(* A successful call that records nothing must also change nothing          *)
(* (selection moves, undo/redo on an empty stack, edits that are no-ops).  *)
NoOp == UNCHANGED hvars

(* C04: a call that returns an error.                                      *)
Fail == UNCHANGED hvars

Undo ==
  /\ undo # <<>>
  /\ LET e == Last(undo) IN
       /\ doc' = e.pre
       /\ undo' = Front(undo)
       /\ redo' = Append(redo, e)
       /\ queue' = Append(queue, QEntry("Undo", e.pre, e.post))
  /\ cursor' = cursor - 1
  /\ UNCHANGED <<net, rdoc, timeline>>

Redo ==
  /\ redo # <<>>
  /\ LET e == Last(redo) IN
       /\ doc' = e.post
       /\ redo' = Front(redo)
       /\ undo' = Append(undo, e)
       /\ queue' = Append(queue, QEntry("Redo", e.pre, e.post))
  /\ cursor' = cursor + 1
  /\ UNCHANGED <<net, rdoc, timeline>>

(* flush_send_queue: the whole queue becomes one batch (possibly empty).   *)
Flush ==
  /\ net' = Append(net, queue)
  /\ queue' = <<>>
  /\ UNCHANGED <<doc, undo, redo, rdoc, timeline, cursor>>

(* What a replica in state rd reaches by applying a batch; Stuck if an   *)
(* entry does not start from the replica's current document.               *)
RECURSIVE ApplyBatch(_, _)
ApplyBatch(rd, batch) ==
  IF batch = <<>> THEN rd
  ELSE LET e == Head(batch) IN
       IF e.type = "Redo"
         THEN IF rd = e.pre  THEN ApplyBatch(e.post, Tail(batch)) ELSE Stuck
         ELSE IF rd = e.post THEN ApplyBatch(e.pre,  Tail(batch)) ELSE Stuck

Apply ==
  /\ net # <<>>
  /\ rdoc' = ApplyBatch(rdoc, Head(net))
  /\ net' = Tail(net)
  /\ UNCHANGED <<doc, undo, redo, queue, timeline, cursor>>

(* to_bytes / from_bytes: document unchanged, history gone.  Only taken    *)
(* when nothing is outstanding (the new model has an empty queue).         *)
Reload ==
  /\ queue = <<>> /\ net = <<>>
  /\ undo' = <<>> /\ redo' = <<>>
  /\ timeline' = <<doc>> /\ cursor' = 1
  /\ UNCHANGED <<doc, queue, net, rdoc>>

HNext ==
  \/ \E d \in Doc : Op(d)
  \/ Fail
  \/ Undo \/ Redo \/ Flush \/ Apply \/ Reload

-----------------------------------------------------------------------------
(* The properties, on the design.                                          *)

RECURSIVE Flatten(_)
Flatten(ss) == IF ss = <<>> THEN <<>> ELSE Head(ss) \o Flatten(Tail(ss))

TypeOK ==
  /\ doc \in Doc /\ rdoc \in Doc \cup {Stuck}
  /\ cursor \in 1..Len(timeline)

(* C01/C02: undo and redo move a cursor over the list of operations.       *)
CursorModel ==
  /\ doc = timeline[cursor]
  /\ Len(undo) = cursor - 1
  /\ Len(redo) = Len(timeline) - cursor
  /\ \A i \in 1..Len(undo) : undo[i] = Entry(timeline[i], timeline[i+1])
  /\ \A i \in 1..Len(redo) :
        redo[i] = Entry(timeline[Len(timeline) - i], timeline[Len(timeline) - i + 1])

(* C01 as an action property *)
UndoRestores  == [][ (cursor' = cursor - 1 /\ timeline' = timeline) => doc' = timeline[cursor - 1] ]_hvars
(* C02 *)
RedoReapplies == [][ (cursor' = cursor + 1 /\ timeline' = timeline) => doc' = timeline[cursor + 1] ]_hvars
NewOpDiscards == [][ (timeline' # timeline /\ Len(timeline') > 1) =>
                       (redo' = <<>> /\ timeline' = Append(SubSeq(timeline, 1, cursor), doc')) ]_hvars

(* C03: the replica is never stuck, what is outstanding leads exactly to   *)
(* the primary's document, and with nothing outstanding they are equal.    *)
ReplicaNeverStuck == rdoc # Stuck
ReplicaTracks == ApplyBatch(rdoc, Flatten(net) \o queue) = doc
Converged     == (queue = <<>> /\ net = <<>>) => rdoc = doc

(* C04 *)
FailFrame == [][ TRUE ]_hvars   \* Fail is UNCHANGED by construction; checked per event in traces

=============================================================================
