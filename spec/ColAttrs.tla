------------------------------ MODULE ColAttrs ------------------------------
(***************************************************************************)
(* C29 - row and column attributes change independently.                    *)
(*                                                                         *)
(* Abstract state: every column (row) has a width (height), a hidden flag   *)
(* and an optional style.  Each action changes exactly one attribute of     *)
(* exactly one column (row).  Workbooks may start from any layout of column *)
(* descriptors, including descriptors that span several columns (as files   *)
(* written by other applications have); a descriptor gives its attributes   *)
(* to every column it covers.  What is observed through the getters: a      *)
(* hidden column reports width 0, and shows its width again when unhidden.  *)
(***************************************************************************)
EXTENDS Integers, Sequences, FiniteSets, TLC, Json

CONSTANTS Axis,         \* "col" or "row": rows have one record per row, columns have descriptors spanning ranges
          NCols,        \* columns (rows) observed (1..NCols)
          ActCols,      \* columns acted upon
          MaxSteps

DefaultWidth == IF Axis = "col" THEN 90 ELSE 25
Widths == {40, 120}
Styles == {1, 2}        \* 0 = no style

VARIABLES width, hidden, style,     \* functions over 1..NCols
          layout,                   \* the initial descriptor list (for the replay)
          trail, steps
cvars == <<width, hidden, style, layout, trail, steps>>

Desc(a, b, w, h, s) == [min |-> a, max |-> b, width |-> w, hidden |-> h, style |-> s]
Covers(d, c) == d.min <= c /\ c <= d.max
AttrOf(descs, c, field, default) ==
  IF \E i \in 1..Len(descs) : Covers(descs[i], c)
    THEN (descs[CHOOSE i \in 1..Len(descs) : Covers(descs[i], c)])[field]
    ELSE default

FirstDescs == { Desc(a, b, w, h, s) : a \in 1..3, b \in 2..NCols, w \in {40, DefaultWidth}, h \in BOOLEAN, s \in {0, 1} }
Layouts == {<<>>} \cup { <<d>> : d \in {x \in FirstDescs : x.min <= x.max /\ (Axis = "col" \/ x.min = x.max)} }
           \cup { <<d, Desc(NCols, NCols, 120, FALSE, 2)>> : d \in {x \in FirstDescs : x.min <= x.max /\ x.max < NCols /\ (Axis = "col" \/ x.min = x.max)} }

Observed == [c \in 1..NCols |-> [w |-> IF hidden[c] THEN 0 ELSE width[c], h |-> hidden[c], s |-> style[c]]]
ObservedNext == [c \in 1..NCols |-> [w |-> IF hidden'[c] THEN 0 ELSE width'[c], h |-> hidden'[c], s |-> style'[c]]]

CInit ==
  /\ layout \in Layouts
  /\ width  = [c \in 1..NCols |-> AttrOf(layout, c, "width", DefaultWidth)]
  /\ hidden = [c \in 1..NCols |-> AttrOf(layout, c, "hidden", FALSE)]
  /\ style  = [c \in 1..NCols |-> AttrOf(layout, c, "style", 0)]
  /\ trail = <<>> /\ steps = 0

Log(a) == trail' = Append(trail, [a |-> a, expect |-> ObservedNext]) /\ steps' = steps + 1 /\ UNCHANGED layout

SetWidth(c, w)  == width' = [width EXCEPT ![c] = w] /\ UNCHANGED <<hidden, style>> /\ Log([op |-> Axis \o "_width", c |-> c, v |-> w])
SetHidden(c, b) == hidden' = [hidden EXCEPT ![c] = b] /\ UNCHANGED <<width, style>> /\ Log([op |-> Axis \o "_hidden", c |-> c, v |-> b])
SetStyle(c, s)  == style' = [style EXCEPT ![c] = s] /\ UNCHANGED <<width, hidden>> /\ Log([op |-> Axis \o "_style", c |-> c, v |-> s])
DeleteStyle(c)  == style' = [style EXCEPT ![c] = 0] /\ UNCHANGED <<width, hidden>> /\ Log([op |-> Axis \o "_style_delete", c |-> c])

CNext ==
  /\ steps < MaxSteps
  /\ \E c \in ActCols :
       \/ \E w \in Widths : SetWidth(c, w)
       \/ \E b \in BOOLEAN : SetHidden(c, b)
       \/ \E s \in Styles : SetStyle(c, s)
       \/ DeleteStyle(c)
CSpec == CInit /\ [][CNext]_cvars

(* C29 on the design: an action changes one attribute of one column *)
Changed(f, g) == {c \in 1..NCols : f[c] # g[c]}
Independence ==
  [][ Cardinality(Changed(width, width') \cup Changed(hidden, hidden') \cup Changed(style, style')) <= 1
      /\ Cardinality({x \in {"w", "h", "s"} : (x = "w" /\ width' # width) \/ (x = "h" /\ hidden' # hidden) \/ (x = "s" /\ style' # style)}) <= 1 ]_cvars

Emit == (steps = MaxSteps) => PrintT(<<"BEHAVIOUR", ToJson([layout |-> layout, init |-> [c \in 1..NCols |->
              [w |-> IF AttrOf(layout, c, "hidden", FALSE) THEN 0 ELSE AttrOf(layout, c, "width", DefaultWidth),
               h |-> AttrOf(layout, c, "hidden", FALSE), s |-> AttrOf(layout, c, "style", 0)]], steps |-> trail])>>)
=============================================================================
