SPECIFICATION GSpec
CONSTANTS
  LastRow = 1048576
  LastCol = 16384
  NameLen = 2
INVARIANTS ColBijective QuoteInverse Emit
CHECK_DEADLOCK FALSE
