SPECIFICATION CSpec
CONSTANTS
  Axis = "col"
  NCols = 5
  ActCols = {2, 3, 5}
  MaxSteps = 2
INVARIANT Emit
PROPERTY Independence
CHECK_DEADLOCK FALSE
