--------------------------- MODULE MC_History ---------------------------
(* TLC wrapper for History.tla.                                            *)
(*  - exhaustive configuration (MC_History_small.cfg): Doc = 0..2 so that *)
(*    operations may coincide on documents; all interleavings of primary   *)
(*    steps, flushes and replica applications within the bounds.           *)
(*  - behaviour generation (MC_History_beh.cfg): every behaviour of exactly *)
(*    MaxSteps actions with fresh documents, printed as one JSON line with  *)
(*    the spec state after every action, for replay on the real UserModel.  *)
EXTENDS History, Json

CONSTANTS MaxSteps, MaxTimeline, MaxQueue, MaxNet

VARIABLES trail, steps
mcvars == <<hvars, trail, steps>>

MCInit == HInit(0) /\ trail = <<>> /\ steps = 0

(* --- exhaustive small model ------------------------------------------- *)
SmallNext == HNext /\ UNCHANGED <<trail, steps>>
SmallSpec == MCInit /\ [][SmallNext]_mcvars
SmallConstraint ==
  /\ Len(timeline) <= MaxTimeline
  /\ Len(queue) <= MaxQueue
  /\ Len(net) <= MaxNet

(* --- behaviour generation ---------------------------------------------- *)
Obs(name) == [a |-> name, doc |-> doc', u |-> Len(undo'), r |-> Len(redo'),
              q |-> Len(queue'), n |-> Len(net'), rdoc |-> rdoc']
Step(name, A) == A /\ trail' = Append(trail, Obs(name))

BehNext ==
  /\ steps < MaxSteps
  /\ steps' = steps + 1
  /\ \/ Step("Op", Op(steps + 1))
     \/ Step("Fail", Fail)
     \/ Step("Undo", Undo)
     \/ Step("UndoEmpty", undo = <<>> /\ NoOp)
     \/ Step("Redo", Redo)
     \/ Step("RedoEmpty", redo = <<>> /\ NoOp)
     \/ Step("Flush", Len(net) < MaxNet /\ Flush)
     \/ Step("Apply", Apply)
     \/ Step("Reload", steps > 0 /\ Reload)
BehSpec == MCInit /\ [][BehNext]_mcvars

Emit == (steps = MaxSteps) => PrintT(<<"BEHAVIOUR", ToJson(trail)>>)

=============================================================================
