----------------------------- MODULE TraceReentry -----------------------------
(***************************************************************************)
(* C18 - trace validation.  For every input of Reentry.tla and every        *)
(* language / locale pair the harness types the input into a fresh cell,    *)
(* logs the four components (interned ids), types the shown content back    *)
(* and logs them again.  A "reenter" event is matched by Reentry!Reenter:   *)
(* every component must be what the preceding "type" event logged.          *)
(***************************************************************************)
EXTENDS Integers, Sequences, FiniteSets, TLC, Json, IOUtils

Rec == ndJsonDeserialize(IOEnv.TRACE)
Components == <<"content", "type", "style", "value">>

VARIABLES l, cell
tvars == <<l, cell>>

IsEvent(e) == l <= Len(Rec) /\ Rec[l].ev = e /\ l' = l + 1
Type == IsEvent("type") /\ cell' = Rec[l].obs
Changed(ev) == {i \in 1..Len(Components) : ev.obs[Components[i]] # cell[Components[i]]}
Reenter ==
  /\ IsEvent("reenter")
  /\ LET ev == Rec[l] IN
     /\ cell' = ev.obs
     /\ \A i \in Changed(ev) : PrintT(<<"VIOL", l, "C18", Components[i]>>)
(* the engine refused the input or its own shown content: logged, judged by the harness *)
Refused == IsEvent("refused") /\ UNCHANGED cell /\ (Rec[l].at # "reenter" \/ PrintT(<<"VIOL", l, "C18", "content-refused">>))

TraceNext == Type \/ Reenter \/ Refused
TraceInit == l = 1 /\ cell = [content |-> 0, type |-> 0, style |-> 0, value |-> 0]
TraceSpec == TraceInit /\ [][TraceNext]_tvars

TraceAccepted ==
  LET d == TLCGet("stats").diameter IN
  IF d - 1 = Len(Rec) THEN PrintT(<<"ACCEPTED", Len(Rec)>>)
  ELSE Print(<<"REJECTED at event", d>>, FALSE)
=============================================================================
