SPECIFICATION XSpec
CONSTANTS
  Vals = {1, 2}
  Components = {"cells", "styles", "names"}
INVARIANT FileIsABook
PROPERTY RoundTrip
CHECK_DEADLOCK FALSE
