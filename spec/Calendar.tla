----------------------------- MODULE Calendar -----------------------------
(***************************************************************************)
(* C21 - date serial numbers and calendar dates correspond one-to-one.     *)
(*                                                                         *)
(* The behaviour of this module IS the correspondence: it starts at serial *)
(* MinSerial = 1899-12-31 and takes one day at a time by the Gregorian     *)
(* rules.  An independent closed form (days-from-civil arithmetic) is      *)
(* checked against the incremental rule in every state, so the oracle is   *)
(* certified against itself over the whole supported range.                *)
(***************************************************************************)
EXTENDS Integers, TLC

CONSTANTS MinSerial, MaxSerial,
          SegLen      \* TLC only: the chain is walked in segments of this length in parallel

VARIABLES serial, y, m, d, wd      \* wd: 0 = Sunday ... 6 = Saturday
cvars == <<serial, y, m, d, wd>>

Leap(yy) == (yy % 4 = 0 /\ yy % 100 # 0) \/ yy % 400 = 0
DaysIn(yy, mm) ==
  IF mm = 2 THEN (IF Leap(yy) THEN 29 ELSE 28)
  ELSE IF mm \in {4, 6, 9, 11} THEN 30 ELSE 31

CInit == serial = MinSerial /\ y = 1899 /\ m = 12 /\ d = 31 /\ wd = 0

NextDay ==
  /\ serial < MaxSerial
  /\ serial' = serial + 1
  /\ wd' = (wd + 1) % 7
  /\ IF d < DaysIn(y, m) THEN d' = d + 1 /\ m' = m /\ y' = y
     ELSE IF m < 12 THEN d' = 1 /\ m' = m + 1 /\ y' = y
     ELSE d' = 1 /\ m' = 1 /\ y' = y + 1

CSpec == CInit /\ [][NextDay]_cvars

(* Closed form: serial -> civil date (proleptic Gregorian, era arithmetic). *)
(* Serial 25569 is 1970-01-01.                                              *)
Civil(s) ==
  LET z   == (s - 25569) + 719468
      era == z \div 146097
      doe == z - era * 146097
      yoe == (doe - doe \div 1460 + doe \div 36524 - doe \div 146096) \div 365
      doy == doe - (365 * yoe + yoe \div 4 - yoe \div 100)
      mp  == (5 * doy + 2) \div 153
      dd  == doy - (153 * mp + 2) \div 5 + 1
      mm  == IF mp < 10 THEN mp + 3 ELSE mp - 9
      yy  == yoe + era * 400 + (IF mm <= 2 THEN 1 ELSE 0)
  IN <<yy, mm, dd>>

(* and back *)
SerialOf(yy, mm, dd) ==
  LET y2  == IF mm <= 2 THEN yy - 1 ELSE yy
      era == y2 \div 400
      yoe == y2 - era * 400
      mp  == IF mm > 2 THEN mm - 3 ELSE mm + 9
      doy == (153 * mp + 2) \div 5 + dd - 1
      doe == yoe * 365 + yoe \div 4 - yoe \div 100 + doy
  IN era * 146097 + doe - 719468 + 25569

ClosedEqualsIncremental == Civil(serial) = <<y, m, d>> /\ SerialOf(y, m, d) = serial
WeekdayOK == wd = (serial - 1) % 7
DateOK == m \in 1..12 /\ d \in 1..DaysIn(y, m)
LastDay == serial = MaxSerial => (y = 9999 /\ m = 12 /\ d = 31)

(* The same chain walked by several TLC workers: segment starts are seeded with the closed *)
(* form; every segment runs into the seeded start of the next one, so the incremental rule *)
(* and the closed form are compared on every day of the range, boundaries included.        *)
SegInit ==
  \E k \in 0..((MaxSerial - MinSerial) \div SegLen) :
     /\ serial = MinSerial + k * SegLen
     /\ y = Civil(serial)[1] /\ m = Civil(serial)[2] /\ d = Civil(serial)[3]
     /\ wd = (serial - 1) % 7
SegSpec == SegInit /\ [][NextDay]_cvars
FirstDay == serial = MinSerial => (y = 1899 /\ m = 12 /\ d = 31 /\ wd = 0)

(* one line per state for the replay on the implementation *)
Emit == PrintT(<<"D", serial, y, m, d, wd>>)
=============================================================================
