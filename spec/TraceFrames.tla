----------------------------- MODULE TraceFrames -----------------------------
(***************************************************************************)
(* C10 / C17 / C32 - trace validation of the frame laws in Frames.tla.      *)
(* Every event carries the projection of the workbook before and after one  *)
(* operation; opaque components are interned ids, the uses of sheet names    *)
(* and defined names in formulas are data.                                  *)
(***************************************************************************)
EXTENDS Integers, Sequences, FiniteSets, TLC, Json, IOUtils, FrameLaws

Rec == ndJsonDeserialize(IOEnv.TRACE)

VARIABLES l
tvars == <<l>>

(* TRUE always; prints the violated law *)
Check(c, prop, law) == c \/ PrintT(<<"VIOL", l, prop, law>>)
Same(ev, k) == ev.after[k] = ev.before[k]

Law(ev) ==
  IF ~ev.ok THEN TRUE
  ELSE CASE ev.ev = "set_lang" ->
              /\ Check(Same(ev, "vals"), "C10", "language-changes-values")
              /\ Check(Same(ev, "stored"), "C10", "language-changes-stored-formulas")
              /\ Check(Same(ev, "cfs"), "C10", "language-changes-conditional-formats")
              /\ Check(Same(ev, "names"), "C10", "language-changes-names")
              /\ Check(Same(ev, "names"), "C32", "language-changes-names")
         [] ev.ev = "set_locale" ->
              /\ Check(Same(ev, "vals_nl"), "C10", "locale-changes-values")
              /\ Check(Same(ev, "stored"), "C10", "locale-changes-stored-formulas")
              /\ Check(Same(ev, "cfs"), "C10", "locale-changes-conditional-formats")
              /\ Check(Same(ev, "names"), "C10", "locale-changes-names")
              /\ Check(Same(ev, "names"), "C32", "locale-changes-names")
         [] ev.ev = "reparse" ->        \* right after a switch everything stored is read again: nothing may change
              /\ Check(Same(ev, "vals"), "C10", "switch-then-reread-changes-values")
              /\ Check(Same(ev, "stored"), "C10", "switch-then-reread-changes-stored-formulas")
              /\ Check(Same(ev, "names"), "C10", "switch-then-reread-changes-names")
              /\ Check(Same(ev, "cfs"), "C10", "switch-then-reread-changes-conditional-formats")
         [] ev.ev = "retype" ->
              /\ Check(Same(ev, "stored"), "C10", "re-entry-changes-stored-formula")
              /\ Check(Same(ev, "vals"), "C10", "re-entry-changes-values")
         [] ev.ev = "rename_sheet" ->
              /\ Check(Same(ev, "vals_ns") \/ RenameCaptures(ev.before.refs, ev.args.new), "C17", "rename-changes-values")
              /\ Check(ev.after.refs = RenameInRefs(ev.before.refs, ev.args.old, ev.args.new), "C17", "rename-references")
              /\ Check(NamesCore(ev.after.names_data) = RenameInNames(ev.before.names_data, ev.args.old, ev.args.new), "C32", "rename-sheet-names")
         [] ev.ev = "move_sheet" ->
              /\ Check(Same(ev, "vals_ns"), "C17", "move-changes-values")
              /\ Check(Same(ev, "refs"), "C17", "move-changes-references")
              /\ Check(Same(ev, "names"), "C32", "move-sheet-changes-names")
         [] ev.ev = "dup_sheet" ->
              /\ Check(\A sid \in DOMAIN ev.before.sheets : sid \in DOMAIN ev.after.sheets /\ ev.after.sheets[sid].vals_ns = ev.before.sheets[sid].vals_ns, "C17", "duplicate-changes-values")
              /\ Check(DupValuesOK(ev.before.sheets, ev.after.sheets, ev.args.src, ev.args.new), "C17", "duplicate-values-differ")
         [] ev.ev = "del_sheet" ->
              Check(NamesSurviveDelete(ev.before.names_data, ev.after.names_data, ev.args.sid, ev.args.name), "C32", "delete-sheet-loses-name")
         [] ev.ev = "rename_name" ->
              /\ Check(Same(ev, "vals"), "C32", "rename-name-changes-values")
              /\ Check(ev.after.uses = RenameInUses(ev.before.uses, ev.args.old, ev.args.new, ev.args.scope, ev.args.shadow), "C32", "rename-name-formulas")
         [] ev.ev = "reload" -> Check(Same(ev, "names"), "C32", "reload-changes-names")
         [] ev.ev = "xlsx" -> Check(Same(ev, "names"), "C32", "xlsx-changes-names")
         [] OTHER -> TRUE

TraceNext == l <= Len(Rec) /\ l' = l + 1 /\ (Rec[l].ev = "reset" \/ Law(Rec[l]))
TraceInit == l = 1
TraceSpec == TraceInit /\ [][TraceNext]_tvars

TraceAccepted ==
  LET d == TLCGet("stats").diameter IN
  IF d - 1 = Len(Rec) THEN PrintT(<<"ACCEPTED", Len(Rec)>>)
  ELSE Print(<<"REJECTED at event", d>>, FALSE)
=============================================================================
