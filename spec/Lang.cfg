SPECIFICATION Spec
INVARIANT InjectiveReport
POSTCONDITION TraceAccepted
CHECK_DEADLOCK FALSE
