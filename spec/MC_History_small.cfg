SPECIFICATION SmallSpec
CONSTANTS
  Doc = {0, 1, 2}
  MaxSteps = 0
  MaxTimeline = 4
  MaxQueue = 3
  MaxNet = 2
CONSTRAINT SmallConstraint
INVARIANTS TypeOK CursorModel ReplicaNeverStuck ReplicaTracks Converged
PROPERTIES UndoRestores RedoReapplies NewOpDiscards
CHECK_DEADLOCK FALSE
