-------------------------------- MODULE Frames --------------------------------
(***************************************************************************)
(* C10 / C17 / C32 - the small design model for the frame laws of          *)
(* FrameLaws.tla: sheets are names, formulas are lists of sheet names, and  *)
(* a rename rewrites them with the same operator the trace laws use.        *)
(***************************************************************************)
EXTENDS FrameLaws

(* ---- a small model: sheets are names, formulas are lists of sheet names ---- *)
CONSTANTS SheetNames
VARIABLES sheets, refs
fvars == <<sheets, refs>>
FInit == sheets \in (SUBSET SheetNames \ {{}}) /\ refs \in [1..2 -> [1..2 -> SheetNames]]
Rename(old, new) == old \in sheets /\ new \notin sheets /\ sheets' = (sheets \ {old}) \cup {new}
                    /\ refs' = [i \in 1..2 |-> Ren(refs[i], old, new)]
FNext == \E old, new \in SheetNames : Rename(old, new)
FSpec == FInit /\ [][FNext]_fvars
(* a reference to an existing sheet never dangles after a rename, and a reference to another sheet keeps its spelling *)
(* (a reference to a sheet that does not exist may start to resolve when a sheet takes that name: TLC shows it)   *)
RenameKeepsResolved == [][\A i \in 1..2, j \in 1..2 : (refs[i][j] \in sheets) => (refs'[i][j] \in sheets')]_fvars
OthersKeepSpelling == [][\A i \in 1..2, j \in 1..2 : (refs[i][j] \notin (sheets \ sheets')) => refs'[i][j] = refs[i][j]]_fvars
=============================================================================
