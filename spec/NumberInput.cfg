SPECIFICATION NSpec
CONSTANTS
  MaxLen = 3
  Alphabet <- MCAlphabet
INVARIANTS LocaleSymmetry DigitsNonEmpty Emit
CHECK_DEADLOCK FALSE
