------------------------------- MODULE Grid -------------------------------
(***************************************************************************)
(* C22 - cell-reference and sheet-name codecs are bijective.               *)
(*                                                                         *)
(* Column letters (bijective base 26), A1 and R1C1 reference text with the *)
(* four absolute/relative combinations, and quoting of sheet names.  The   *)
(* codecs are defined here on sequences of one-character strings; TLC      *)
(* checks that they are mutually inverse over the enumerated space and     *)
(* prints every case with its expected text for replay on the real lexer,  *)
(* parser and printers.                                                    *)
(***************************************************************************)
EXTENDS Integers, Sequences, FiniteSets, TLC, Json

CONSTANTS LastRow, LastCol, NameLen

Letters == <<"A","B","C","D","E","F","G","H","I","J","K","L","M","N","O","P","Q","R","S","T","U","V","W","X","Y","Z">>
Digits  == <<"0","1","2","3","4","5","6","7","8","9">>
LetterIndex(ch) == CHOOSE i \in 1..26 : Letters[i] = ch
Front(s) == SubSeq(s, 1, Len(s) - 1)
Last(s) == s[Len(s)]

(* ---- columns: bijective base 26 ---- *)
RECURSIVE ColName(_)
ColName(n) == IF n = 0 THEN <<>> ELSE Append(ColName((n - 1) \div 26), Letters[((n - 1) % 26) + 1])
RECURSIVE ColNum(_)
ColNum(s) == IF s = <<>> THEN 0 ELSE ColNum(Front(s)) * 26 + LetterIndex(Last(s))

(* ---- decimal numerals ---- *)
RECURSIVE Numeral(_)
Numeral(n) == IF n < 10 THEN <<Digits[n + 1]>> ELSE Append(Numeral(n \div 10), Digits[(n % 10) + 1])

(* ---- A1 text of a reference end ---- *)
A1(row, col, absR, absC) ==
  (IF absC THEN <<"$">> ELSE <<>>) \o ColName(col) \o (IF absR THEN <<"$">> ELSE <<>>) \o Numeral(row)

(* ---- R1C1 text relative to a host cell: R[dr]C[dc], absolute parts R5C7 ---- *)
Signed(n) == IF n < 0 THEN <<"-">> \o Numeral(-n) ELSE Numeral(n)
Part(letter, abs, target, host) ==
  IF abs THEN <<letter>> \o Numeral(target)
  ELSE <<letter, "[">> \o Signed(target - host) \o <<"]">>
R1C1(row, col, absR, absC, hostR, hostC) == Part("R", absR, row, hostR) \o Part("C", absC, col, hostC)

(* ---- sheet-name quoting: quote, doubling embedded quotes ---- *)
RECURSIVE Doubled(_)
Doubled(s) == IF s = <<>> THEN <<>> ELSE (IF Head(s) = "'" THEN <<"'", "'">> ELSE <<Head(s)>>) \o Doubled(Tail(s))
Quote(s) == <<"'">> \o Doubled(s) \o <<"'">>
RECURSIVE Undouble(_)
Undouble(s) ==
  IF s = <<>> THEN <<>>
  ELSE IF Head(s) = "'" /\ Len(s) >= 2 /\ s[2] = "'" THEN <<"'">> \o Undouble(Tail(Tail(s)))
  ELSE <<Head(s)>> \o Undouble(Tail(s))
Unquote(q) == Undouble(SubSeq(q, 2, Len(q) - 1))

(* ---- the enumerated cases ---- *)
Rows == {1, 2, 9, 10, 99, LastRow - 1, LastRow}
Cols == {1, 2, 26, 27, 52, 702, 703, LastCol - 1, LastCol}
Hosts == {<<1, 1>>, <<5, 5>>, <<LastRow, LastCol>>}
NameAlphabet == {"A", "R", "C", "1", "e", "'", " ", "!", ".", "-", "_", "$", "(", "é", "x"}
RECURSIVE SeqsUpTo(_, _)
SeqsUpTo(S, n) == IF n = 0 THEN {<<>>} ELSE LET P == SeqsUpTo(S, n - 1) IN P \cup {Append(p, x) : p \in {q \in P : Len(q) = n - 1}, x \in S}
FixedNames == { <<"T","R","U","E">>, <<"R","1","C","1">>, <<"R","C">>, <<"A","1">>, <<"X","F","D","1">>, <<"S","U","M">>,
                <<"1","e","3">>, <<"S","h","'","1">>, <<"a"," ","b">>, <<"A",".","B">>, <<"é","t","é">>, <<"R">>, <<"C">> }

ColCases  == [k : {"col"}, n : 1..LastCol]
RefCases  == [k : {"ref"}, row : Rows, col : Cols, absR : BOOLEAN, absC : BOOLEAN, host : Hosts]
(* ranges: both ends with their own flags; the printed text need not be the spec's (a range over all rows
   may be printed as a column range) but must parse back to the same ends and flags *)
RRows == {1, 2, 6, LastRow}
RangeCases == [k : {"range"}, r1 : RRows, r2 : RRows, c1 : {1, 2}, c2 : {2, 3}, f : [1..4 -> BOOLEAN], host : Hosts]
NameCases == [k : {"name"}, chars : (SeqsUpTo(NameAlphabet, NameLen) \ {<<>>}) \cup FixedNames]

VARIABLE c
GInit == c \in ColCases \cup RefCases \cup {x \in RangeCases : x.r1 <= x.r2} \cup NameCases
GSpec == GInit /\ [][UNCHANGED c]_c

(* ---- the design-level theorems, checked on every case ---- *)
ColBijective == c.k = "col" => (ColNum(ColName(c.n)) = c.n /\ Len(ColName(c.n)) \in 1..3)
QuoteInverse == c.k = "name" => Unquote(Quote(c.chars)) = c.chars

Emit ==
  CASE c.k = "col"  -> PrintT(<<"CASE", ToJson([k |-> "col", n |-> c.n, name |-> ColName(c.n)])>>)
    [] c.k = "ref"  -> PrintT(<<"CASE", ToJson([k |-> "ref", row |-> c.row, col |-> c.col, absR |-> c.absR, absC |-> c.absC,
                                                 hostR |-> c.host[1], hostC |-> c.host[2],
                                                 a1 |-> A1(c.row, c.col, c.absR, c.absC),
                                                 r1c1 |-> R1C1(c.row, c.col, c.absR, c.absC, c.host[1], c.host[2])])>>)
    [] c.k = "range" -> PrintT(<<"CASE", ToJson([k |-> "range", r1 |-> c.r1, c1 |-> c.c1, r2 |-> c.r2, c2 |-> c.c2,
                                                  absR1 |-> c.f[1], absC1 |-> c.f[2], absR2 |-> c.f[3], absC2 |-> c.f[4],
                                                  hostR |-> c.host[1], hostC |-> c.host[2],
                                                  a1 |-> A1(c.r1, c.c1, c.f[1], c.f[2]) \o <<":">> \o A1(c.r2, c.c2, c.f[3], c.f[4])])>>)
    [] c.k = "name" -> PrintT(<<"CASE", ToJson([k |-> "name", chars |-> c.chars, quoted |-> Quote(c.chars)])>>)
=============================================================================
