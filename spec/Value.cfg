SPECIFICATION VSpec
CONSTANTS
  Depth2Pool = 0
INVARIANTS TypeOK Emit
CHECK_DEADLOCK FALSE
