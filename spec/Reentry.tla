------------------------------- MODULE Reentry -------------------------------
(***************************************************************************)
(* C18 - re-entering a cell's displayed content reproduces the cell.        *)
(*                                                                         *)
(* A cell, as far as the statement speaks about it, is a record of four     *)
(* components: the content the editor shows, the value type, the style and  *)
(* the value (to 15 significant digits).  Type(x) replaces the cell by      *)
(* whatever the input x means; Reenter types the shown content back into    *)
(* the same cell.  The contract: Reenter is a stuttering step.              *)
(*                                                                         *)
(* The second half of the module is the input space handed to the           *)
(* implementation: every character string up to MaxLen over the alphabet    *)
(* of number-like input, and the entries 1..VocabSize of the harness's      *)
(* vocabulary (booleans and errors in the five languages, dates, times,     *)
(* percentages, currencies, look-alike strings with and without the quote   *)
(* prefix, formulas, odd text).                                             *)
(***************************************************************************)
EXTENDS Integers, Sequences, TLC, Json

CONSTANTS MaxLen, Alphabet, VocabSize, Vals
Components == {"content", "type", "style", "value"}
Cells == [Components -> Vals]

RECURSIVE Strings(_)
Strings(n) == IF n = 0 THEN {<<>>} ELSE LET P == Strings(n - 1) IN P \cup {Append(p, x) : p \in {q \in P : Len(q) = n - 1}, x \in Alphabet}
MCAlphabet == {"1", "2", "0", ",", ".", "-", "+", "e", "%", "$", "€", "/", " ", ":", "'", "=", "T"}
Inputs == {[k |-> "str", s |-> s, v |-> 0] : s \in Strings(MaxLen) \ {<<>>}} \cup {[k |-> "vocab", s |-> <<>>, v |-> i] : i \in 1..VocabSize}

VARIABLES cell, input, phase
rvars == <<cell, input, phase>>

RInit == input \in Inputs /\ cell \in Cells /\ phase = "typed"
Reenter == phase = "typed" /\ phase' = "reentered" /\ UNCHANGED <<cell, input>>
RSpec == RInit /\ [][Reenter]_rvars

Stutter == [][cell' = cell]_rvars
Emit == phase = "typed" => PrintT(<<"CASE", ToJson([k |-> input.k, s |-> input.s, v |-> input.v])>>)
=============================================================================
