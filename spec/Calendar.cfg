SPECIFICATION SegSpec
CONSTANTS
  MinSerial = 1
  MaxSerial = 2958465
  SegLen = 20000
INVARIANTS ClosedEqualsIncremental WeekdayOK DateOK LastDay FirstDay Emit
CHECK_DEADLOCK FALSE
