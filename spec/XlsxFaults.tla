----------------------------- MODULE XlsxFaults -----------------------------
(***************************************************************************)
(* C25 - xlsx import never crashes.                                         *)
(*                                                                         *)
(* Fault model of an xlsx package.  A package is a set of parts; an XML     *)
(* part is a sequence of elements with attributes (the vocabulary - which   *)
(* parts exist and how many elements / attributes each has - is read from    *)
(* real packages).  Fault actions damage a package; Import has outcome      *)
(* "ok" or "err" whatever the damage ("panic", "abort" and "timeout" are    *)
(* not in the type).  TLC enumerates every single fault and pairs of        *)
(* faults within the sampling bounds.                                       *)
(***************************************************************************)
EXTENDS Integers, Sequences, FiniteSets, TLC, Json, IOUtils

CONSTANTS MaxBump,    \* index-like attributes are moved up by 1..MaxBump
          MaxIdx,     \* at most this many element / attribute positions per part (spread over the part)
          Pairs       \* TRUE: also pairs of faults (part-level x part-level and one structural fault per part pair)

Vocab == ndJsonDeserialize(IOEnv.VOCAB)
Parts == 1..Len(Vocab)
Pkgs == {Vocab[p].pkg : p \in Parts}

Spread(n) == IF n <= MaxIdx THEN 1..n ELSE {1 + ((i - 1) * n) \div MaxIdx : i \in 1..MaxIdx}
GarbleClasses == 0..7

F(k, p, i, x) == [k |-> k, part |-> Vocab[p].part, i |-> i, x |-> x]
ElemFaults(p) == {F(k, p, i, 0) : k \in {"DropElem", "DupElem", "EmptyElem"}, i \in Spread(Vocab[p].elems)}
AttrFaults(p) == {F("DropAttr", p, j, 0) : j \in Spread(Vocab[p].attrs)} \cup {F("GarbleAttr", p, j, g) : j \in Spread(Vocab[p].attrs), g \in GarbleClasses}
(* an index-like attribute (small integer: sheet id, style index, count ...) moved up by 1..MaxBump: somewhere *)
(* in that range it sits exactly one past the end of whatever it indexes                                     *)
BumpFaults(p) == {F("BumpAttr", p, Vocab[p].ints[j], d) : j \in 1..Len(Vocab[p].ints), d \in 1..MaxBump}
PartFaults(p) == {F("DropPart", p, 0, 0)} \cup {F("TruncatePart", p, 0, k) : k \in {1, 8, 15}}
PkgFaults == {[k |-> "TruncateZip", part |-> "", i |-> 0, x |-> k] : k \in 1..15} \cup {[k |-> "FlipByte", part |-> "", i |-> 0, x |-> k] : k \in 1..16}

Singles(pkg) == UNION {ElemFaults(p) \cup AttrFaults(p) \cup BumpFaults(p) \cup PartFaults(p) : p \in {q \in Parts : Vocab[q].pkg = pkg}} \cup PkgFaults
(* pairs: two part-level faults on different parts, and the first structural fault of two different parts *)
FirstOf(p) == IF Vocab[p].elems > 1 THEN {F("DropElem", p, 2, 0), F("EmptyElem", p, 1, 0)} ELSE {}
PairSets(pkg) ==
  LET ps == {q \in Parts : Vocab[q].pkg = pkg /\ Vocab[q].size > 0} IN
  {<<a, b>> : a \in UNION {PartFaults(p) : p \in ps}, b \in UNION {PartFaults(p) : p \in ps}} \cup
  {<<a, b>> : a \in UNION {FirstOf(p) : p \in ps}, b \in UNION {FirstOf(p) : p \in ps}}

Plans == UNION {{[pkg |-> g, faults |-> <<f>>] : f \in Singles(g)} : g \in Pkgs}
         \cup (IF Pairs THEN UNION {{[pkg |-> g, faults |-> <<pr[1], pr[2]>>] : pr \in {x \in PairSets(g) : x[1] # x[2] /\ x[1].part # x[2].part}} : g \in Pkgs} ELSE {})

VARIABLES plan, outcome
XInit == plan \in Plans /\ outcome = "pending"
Import == outcome = "pending" /\ outcome' \in {"ok", "err"} /\ UNCHANGED plan
XSpec == XInit /\ [][Import]_<<plan, outcome>>
OutcomeOK == outcome \in {"pending", "ok", "err"}
Emit == outcome = "pending" => PrintT(<<"CASE", ToJson(plan)>>)
=============================================================================
