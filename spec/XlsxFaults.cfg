SPECIFICATION XSpec
CONSTANTS
  MaxIdx = 12
  MaxBump = 12
  Pairs = FALSE
INVARIANTS OutcomeOK Emit
CHECK_DEADLOCK FALSE
